//! Shared types: violations, judgements, run statistics, swarm pickers for knobs / schedules /
//! segmentations.
use super::runner::{Fired, RunRecord};
use super::scenario::*;
use std::collections::{BTreeMap, HashSet};
use tokio::sim::{Counters, Rng};

#[derive(Clone, Debug, PartialEq)]
pub struct Violation {
    pub property: &'static str,
    /// which clause of the oracle failed (stable identifier; minimisation keeps it fixed)
    pub clause: String,
    /// identifies the defect for known-finding matching (e.g. panic site, first differing field)
    pub signature: String,
    pub detail: String,
}

#[derive(Clone, Debug, Default)]
pub struct RunStats {
    pub sig: u64,
    pub full: u64,
    pub states: HashSet<u64>,
    pub ticks: u64,
    pub steps: u64,
    pub events: u64,
    pub fired: Fired,
    pub counters: Counters,
    pub ended: String,
    pub frames_out: u64,
    pub bytes_in: u64,
    pub bytes_out: u64,
    pub nontrivial: bool,
}

impl RunStats {
    pub fn of(rec: &RunRecord) -> Self {
        let f = &rec.fired;
        let c = &rec.summary.counters;
        let fault_fired = f.chunk_split_frames
            + f.coalesced_frames
            + f.delay
            + f.eof
            + f.epipe
            + f.stall_rx
            + f.short_write
            + f.burst
            + f.sticky_runs
            + f.prio_changes
            + c.yields
            + c.send_blocked.iter().sum::<u64>()
            + c.stdout_full
            > 0;
        Self {
            sig: rec.summary.hash_sig,
            full: rec.summary.hash_full,
            states: rec.states.clone(),
            ticks: rec.summary.ticks,
            steps: rec.steps,
            events: rec.summary.n_events,
            fired: rec.fired.clone(),
            counters: rec.summary.counters.clone(),
            ended: match &rec.end {
                Some(e) => format!("status {}", e.status()),
                None => "not ended".into(),
            },
            frames_out: rec.frames.len() as u64,
            bytes_in: rec.consumed,
            bytes_out: rec.rx_bytes,
            nontrivial: fault_fired && rec.frames.len() > 0,
        }
    }
}

#[derive(Clone, Debug, Default)]
pub struct Judgement {
    pub violations: Vec<Violation>,
    /// observations that belong to another property's layer (never reported as VIOLATION here)
    pub notes: Vec<String>,
    pub runs: Vec<RunStats>,
    /// reach probes: name -> count
    pub probes: BTreeMap<&'static str, u64>,
    /// number of oracle comparisons made (steps compared, frames compared, ...)
    pub comparisons: u64,
}

impl Judgement {
    pub fn probe(&mut self, name: &'static str, n: u64) {
        if n > 0 {
            *self.probes.entry(name).or_insert(0) += n;
        } else {
            self.probes.entry(name).or_insert(0);
        }
    }
    pub fn violate(&mut self, property: &'static str, clause: &str, signature: String, detail: String) {
        self.violations.push(Violation {
            property,
            clause: clause.to_string(),
            signature,
            detail,
        });
    }
}

#[derive(Clone, Copy, Debug, PartialEq, Eq)]
pub enum Tier {
    Quick,
    Thorough,
}

// ------------------------------------------------------------------------------------------
// swarm pickers
// ------------------------------------------------------------------------------------------

pub fn pick_policy(rng: &mut Rng, horizon: u32) -> Policy {
    match rng.below(10) {
        0 => Policy::Fifo,
        1..=4 => Policy::Uniform,
        5..=7 => Policy::Sticky {
            permille: *rng.pick(&[500, 800, 950, 990]),
        },
        _ => Policy::Pct {
            changes: rng.range(1, 4) as u32,
            horizon: horizon.max(10),
        },
    }
}

pub fn pick_caps(rng: &mut Rng) -> [usize; 2] {
    let opts = [1usize, 2, 3, 32, 32, 32, 33];
    [*rng.pick(&opts), *rng.pick(&opts)]
}

pub fn pick_knobs(rng: &mut Rng, stress: bool) -> Knobs {
    let mut k = Knobs::shipped();
    if rng.chance(700) {
        k.chan_caps = pick_caps(rng);
    }
    k.stdout_cap = *rng.pick(&[1usize, 7, 64, 512, 4096, 65536, 65536, 1 << 20]);
    if !stress && k.stdout_cap < 64 && rng.chance(700) {
        k.stdout_cap = 65536;
    }
    k.read_cap = *rng.pick(&[0usize, 0, 1, 2, 7, 21, 64, 1000]);
    k.read_cap_random = k.read_cap > 1 && rng.chance(500);
    k.yield_permille = *rng.pick(&[0u32, 100, 300, 500, 800]);
    k.short_write_permille = *rng.pick(&[0u32, 0, 200, 700]);
    k.rx_chunk = *rng.pick(&[0usize, 0, 1, 5, 100, 4096]);
    // workers of the simulated runtime, drawn from a copy of the stream (the other draws of
    // existing scenarios stay what they were)
    let mut side = rng.clone();
    k.workers = *side.pick(&[1usize, 2, 2, 3, 4, 4]);
    k
}

/// Number of content changes in one `didChange`: mostly what `usual` offers, one time in 33 a
/// big batch (indenting a block, many cursors, replace-all) around the sizes a threshold in the
/// code is likely to sit at.
pub fn batch_size(rng: &mut Rng, usual: &[usize]) -> usize {
    if rng.chance(30) {
        *rng.pick(&[15usize, 16, 17, 31, 32, 33, 34, 48, 63, 64, 65, 100, 129])
    } else {
        *rng.pick(usual)
    }
}

/// Offsets in the stream that are interesting to cut at: inside `Content-Length`, inside the
/// digits, between `\r` and `\n`, between header and body, inside multi-byte characters, at
/// frame ends.
pub fn interesting_cuts(stream: &[u8], frame_ends: &[usize]) -> Vec<usize> {
    let mut out = vec![];
    let mut start = 0;
    for &e in frame_ends {
        // header is ASCII: "Content-Length: N\r\n\r\n"
        let hdr_end = stream[start..e]
            .windows(4)
            .position(|w| w == b"\r\n\r\n")
            .map(|p| start + p + 4)
            .unwrap_or(e);
        out.extend([start + 1, start + 7, start + 14, start + 15, start + 16, start + 17]);
        out.extend([hdr_end - 4, hdr_end - 3, hdr_end - 2, hdr_end - 1, hdr_end, hdr_end + 1]);
        out.extend([e - 1, e]);
        for i in hdr_end..e {
            if stream[i] >= 0x80 {
                out.push(i);
                out.push(i + 1);
            }
        }
        // the 21-byte length guard of the decoder
        out.extend([start + 20, start + 21, start + 22]);
        start = e;
    }
    out.retain(|&c| c > 0 && c <= stream.len());
    out.sort_unstable();
    out.dedup();
    out
}

pub fn pick_segmentation(rng: &mut Rng, stream: &[u8], frame_ends: &[usize]) -> Segmentation {
    match rng.below(10) {
        0 => Segmentation::Frames,
        1 => Segmentation::Coalesced,
        2 | 3 => Segmentation::Fixed {
            k: *rng.pick(&[1usize, 2, 3, 5, 7, 16, 20, 21, 22, 64, 300]),
        },
        _ => {
            let interesting = interesting_cuts(stream, frame_ends);
            let n = match rng.below(4) {
                0 => 1,
                1 => 2,
                _ => rng.range(1, 12),
            };
            let mut at = vec![];
            for _ in 0..n {
                if !interesting.is_empty() && rng.chance(700) {
                    at.push(*rng.pick(&interesting));
                } else if !stream.is_empty() {
                    at.push(rng.range(1, stream.len()));
                }
            }
            at.sort_unstable();
            at.dedup();
            Segmentation::Cuts { at }
        }
    }
}

/// JSON-RPC ids are arbitrary integers: (first id, stride) of a session with fewer than 600
/// requests - mostly 1, 2, 3, ..., sometimes zero, negative, large or descending ids.
pub fn pick_id_scheme(rng: &mut Rng) -> (i32, i32) {
    *rng.pick(&[
        (1, 1), (1, 1), (1, 1), (1, 1), (1, 1), (1, 1),
        (0, 1), (-7, 1), (1_000_000, 7), (2_147_483_000, 1), (-1, -1), (-2_147_483_000, -1), (5, 0x1_0000),
    ])
}

/// Isolated mode: every scenario is judged in a process of its own (see driver::judge). Used when
/// violations found with many simulations per process do not reproduce in a fresh process, i.e.
/// when the code under test keeps process-global state (a `static`) that simulations running in
/// the same process share.
pub static ISOLATED: std::sync::atomic::AtomicBool = std::sync::atomic::AtomicBool::new(false);

/// Progress counter of the current worker thread: the simulator bumps it on every scheduler step, so
/// the watchdog can tell a slow but progressing run (heavily loaded machine, long pathological
/// session) from a single poll that never returns.
pub static HEARTBEAT: [std::sync::atomic::AtomicU64; 256] = [const { std::sync::atomic::AtomicU64::new(0) }; 256];
thread_local! {
    pub static WORKER: std::cell::Cell<usize> = const { std::cell::Cell::new(255) };
}
pub fn heartbeat() {
    WORKER.with(|w| HEARTBEAT[w.get()].fetch_add(1, std::sync::atomic::Ordering::Relaxed));
}

pub fn fresh_uri(i: usize) -> String {
    format!("file:///w/doc{i}.spl")
}
