//! The simulation harness (everything under `h` is verification machinery; everything else in this
//! crate is the server's own source, symlinked from /repo/lsp4spl/src).
pub mod client;
pub mod core;
pub mod driver;
pub mod gen;
pub mod minimize;
pub mod props;
pub mod runner;
pub mod scenario;
pub mod session;
