//! Script builder that keeps the client's replica up to date while the script is generated.
use super::client::Replica;
use super::scenario::*;

#[derive(Default, Clone)]
pub struct Session {
    pub steps: Vec<Step>,
    pub next_id: i32,
    /// request ids are `next_id`, `next_id + stride`, ... (JSON-RPC ids are arbitrary integers)
    pub stride: i32,
    pub replica: Replica,
}

impl Session {
    pub fn new() -> Self {
        Self {
            steps: vec![],
            next_id: 1,
            stride: 1,
            replica: Replica::default(),
        }
    }

    fn id(&mut self) -> i32 {
        let id = self.next_id;
        self.next_id = self.next_id.wrapping_add(self.stride);
        id
    }

    /// Other request ids than 1, 2, 3, ...: zero, negative, large, descending. Must be called before
    /// the first request; `count` ids must fit.
    pub fn id_scheme(&mut self, first: i32, stride: i32) {
        self.next_id = first;
        self.stride = stride;
    }

    pub fn push(&mut self, op: ClientOp) -> &mut Step {
        self.replica.apply(&op);
        self.steps.push(Step::new(op));
        self.steps.last_mut().unwrap()
    }

    pub fn init(&mut self, diag: bool) {
        let id = self.id();
        self.push(ClientOp::Initialize { id, diag, enc: 0 });
    }

    pub fn initialized(&mut self) {
        self.push(ClientOp::Initialized);
    }

    pub fn handshake(&mut self, diag: bool) {
        self.init(diag);
        self.initialized();
    }

    pub fn open(&mut self, uri: &str, text: &str) {
        self.push(ClientOp::Open {
            uri: uri.to_string(),
            text: text.to_string(),
        });
    }

    pub fn change(&mut self, uri: &str, edits: Vec<Edit>) {
        self.push(ClientOp::Change {
            uri: uri.to_string(),
            edits,
        });
    }

    pub fn close(&mut self, uri: &str) {
        self.push(ClientOp::Close {
            uri: uri.to_string(),
        });
    }

    pub fn request(&mut self, method: &str, uri: &str, line: u32, character: u32) -> i32 {
        let id = self.id();
        self.push(ClientOp::Request {
            id,
            method: method.to_string(),
            uri: uri.to_string(),
            line,
            character,
        });
        id
    }

    pub fn probe(&mut self, uri: &str) -> i32 {
        let id = self.id();
        self.push(ClientOp::TextProbe {
            id,
            uri: uri.to_string(),
        });
        id
    }

    pub fn unknown_request(&mut self, method: &str) -> i32 {
        let id = self.id();
        self.push(ClientOp::UnknownRequest {
            id,
            method: method.to_string(),
        });
        id
    }

    pub fn unknown_notification(&mut self, method: &str) {
        self.push(ClientOp::UnknownNotification {
            method: method.to_string(),
            params: None,
        });
    }

    /// Notifications the server does not implement, with the params real clients send: a
    /// cancellation of the request issued last (already answered, or still in the pipe), a trace
    /// setting, a configuration change, a progress report.
    pub fn client_chatter(&mut self, kind: usize) {
        let last = self.next_id.wrapping_sub(self.stride);
        let (method, params) = match kind % 5 {
            0 => ("$/cancelRequest", serde_json::json!({"id": last})),
            1 => ("$/cancelRequest", serde_json::json!({"id": last.wrapping_add(1000)})),
            2 => ("$/setTrace", serde_json::json!({"value": "off"})),
            3 => ("workspace/didChangeConfiguration", serde_json::json!({"settings": {"spl": {"x": 1}}})),
            _ => ("$/progress", serde_json::json!({"token": "t1", "value": {"kind": "end"}})),
        };
        self.push(ClientOp::UnknownNotification {
            method: method.to_string(),
            params: Some(params),
        });
    }

    pub fn shutdown(&mut self) -> i32 {
        let id = self.id();
        self.push(ClientOp::Shutdown { id });
        id
    }

    pub fn exit(&mut self) {
        self.push(ClientOp::Exit);
    }

    pub fn text(&self, uri: &str) -> Option<&String> {
        self.replica.docs.get(uri)
    }
}
