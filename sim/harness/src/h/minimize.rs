//! Delta-debugging minimiser for scenarios: shrink while the same violation class (same property,
//! same oracle clause, same signature head) persists.
use super::core::Violation;
use super::driver::PropDef;
use super::scenario::*;
use std::time::{Duration, Instant};

fn sig_head(s: &str) -> &str {
    // signatures are "<stable part> | <volatile details>"
    s.split(" | ").next().unwrap_or(s)
}

fn still(def: &PropDef, sc: &Scenario, v: &Violation) -> Option<Violation> {
    let j = super::driver::judge(def, sc);
    j.violations
        .into_iter()
        .find(|w| w.property == v.property && w.clause == v.clause && sig_head(&w.signature) == sig_head(&v.signature))
}

fn shrink_text_candidates(t: &str) -> Vec<String> {
    let mut out = vec![];
    if t.is_empty() {
        return out;
    }
    out.push(String::new());
    // halves by lines
    let lines: Vec<&str> = t.split_inclusive('\n').collect();
    if lines.len() > 1 {
        let mid = lines.len() / 2;
        out.push(lines[..mid].concat());
        out.push(lines[mid..].concat());
        // drop one line at a time (bounded)
        for i in 0..lines.len().min(40) {
            let mut l = lines.clone();
            l.remove(i);
            out.push(l.concat());
        }
    }
    // drop a whitespace-separated word, or a char
    let chars: Vec<(usize, char)> = t.char_indices().collect();
    if chars.len() <= 60 {
        for (i, c) in &chars {
            let mut s = t.to_string();
            s.replace_range(*i..*i + c.len_utf8(), "");
            out.push(s);
        }
    } else {
        let words: Vec<&str> = t.split_inclusive(|c: char| c.is_whitespace()).collect();
        let step = (words.len() / 30).max(1);
        let mut i = 0;
        while i < words.len() {
            let mut w = words.clone();
            let end = (i + step).min(w.len());
            w.drain(i..end);
            out.push(w.concat());
            i += step;
        }
    }
    out
}

pub fn minimize(def: &PropDef, sc: &Scenario, v: &Violation, budget: Duration) -> (Scenario, Violation) {
    let t0 = Instant::now();
    let mut best = sc.clone();
    let mut bestv = v.clone();
    // make sure it reproduces at all in-process
    match still(def, &best, v) {
        Some(w) => bestv = w,
        None => return (best, bestv),
    }
    let out_of_time = |t0: &Instant| t0.elapsed() > budget;
    let mut progress = true;
    while progress && !out_of_time(&t0) {
        progress = false;
        // 1. simplify the environment
        let mut env_cands: Vec<Scenario> = vec![];
        if !best.faults.is_empty() {
            for i in 0..best.faults.len() {
                let mut c = best.clone();
                c.faults.remove(i);
                env_cands.push(c);
            }
        }
        if best.schedule.policy != Policy::Fifo {
            let mut c = best.clone();
            c.schedule.policy = Policy::Fifo;
            env_cands.push(c);
        }
        if best.segmentation != Segmentation::Frames {
            let mut c = best.clone();
            c.segmentation = Segmentation::Frames;
            env_cands.push(c);
            if let Segmentation::Cuts { at } = &best.segmentation {
                if at.len() > 1 {
                    for i in 0..at.len() {
                        let mut a = at.clone();
                        a.remove(i);
                        let mut c = best.clone();
                        c.segmentation = Segmentation::Cuts { at: a };
                        env_cands.push(c);
                    }
                }
            }
        }
        if best.knobs != Knobs::shipped() {
            let mut c = best.clone();
            c.knobs = Knobs::shipped();
            env_cands.push(c);
            let s = Knobs::shipped();
            macro_rules! reset {
                ($f:ident) => {
                    if best.knobs.$f != s.$f {
                        let mut c = best.clone();
                        c.knobs.$f = s.$f.clone();
                        env_cands.push(c);
                    }
                };
            }
            reset!(chan_caps);
            reset!(stdout_cap);
            reset!(read_cap);
            reset!(read_cap_random);
            reset!(yield_permille);
            reset!(short_write_permille);
            reset!(rx_chunk);
        }
        for c in env_cands {
            if out_of_time(&t0) {
                break;
            }
            if let Some(w) = still(def, &c, &bestv) {
                best = c;
                bestv = w;
                progress = true;
                break;
            }
        }
        if progress {
            continue;
        }
        // 2. drop script steps (chunks, then singles)
        let n = best.script.len();
        let mut chunk = (n / 2).max(1);
        'steps: while chunk >= 1 {
            let mut i = 0;
            while i < best.script.len() {
                if out_of_time(&t0) {
                    break 'steps;
                }
                let end = (i + chunk).min(best.script.len());
                let mut c = best.clone();
                c.script.drain(i..end);
                if let Some(w) = still(def, &c, &bestv) {
                    best = c;
                    bestv = w;
                    progress = true;
                } else {
                    i += chunk;
                }
            }
            if chunk == 1 {
                break;
            }
            chunk /= 2;
        }
        // 2b. fold the first change of a document into its didOpen text (advance the initial
        //     state): if the violation persists, the history before that point does not matter
        loop {
            if out_of_time(&t0) {
                break;
            }
            let mut folded = false;
            for i in 0..best.script.len() {
                let ClientOp::Open { uri, text } = best.script[i].op.clone() else { continue };
                let Some(j) = (i + 1..best.script.len()).find(|&j| match &best.script[j].op {
                    ClientOp::Change { uri: u, .. } | ClientOp::Close { uri: u } | ClientOp::Open { uri: u, .. } => u == &uri,
                    _ => false,
                }) else {
                    continue;
                };
                let ClientOp::Change { edits, .. } = best.script[j].op.clone() else { continue };
                let mut t = text.clone();
                for e in &edits {
                    super::client::apply_edit(&mut t, e);
                }
                let mut c = best.clone();
                c.script[i].op = ClientOp::Open { uri: uri.clone(), text: t };
                c.script.remove(j);
                if let Some(w) = still(def, &c, &bestv) {
                    best = c;
                    bestv = w;
                    progress = true;
                    folded = true;
                    break;
                }
            }
            if !folded {
                break;
            }
        }
        // 2c. remove a line of a didOpen text and renumber the lines of the later edits of that
        //     document (keeps positions meaningful, which plain text shrinking does not)
        for i in 0..best.script.len() {
            let ClientOp::Open { uri, .. } = best.script[i].op.clone() else { continue };
            let mut line = 0usize;
            loop {
                if out_of_time(&t0) {
                    break;
                }
                let ClientOp::Open { text, .. } = best.script[i].op.clone() else { break };
                let lines: Vec<&str> = text.split_inclusive('\n').collect();
                if line >= lines.len() || lines.len() < 2 {
                    break;
                }
                let mut c = best.clone();
                let mut l = lines.clone();
                l.remove(line);
                c.script[i].op = ClientOp::Open { uri: uri.clone(), text: l.concat() };
                let mut ok = true;
                for st in c.script.iter_mut().skip(i + 1) {
                    match &mut st.op {
                        ClientOp::Open { uri: u, .. } if *u == uri => break,
                        ClientOp::Change { uri: u, edits } if *u == uri => {
                            for e in edits.iter_mut() {
                                if let Some(r) = e.range.as_mut() {
                                    if r[0] as usize == line || r[2] as usize == line {
                                        ok = false;
                                    }
                                    if r[0] as usize > line {
                                        r[0] -= 1;
                                    }
                                    if r[2] as usize > line {
                                        r[2] -= 1;
                                    }
                                }
                            }
                        }
                        ClientOp::Request { uri: u, line: rl, .. } if *u == uri => {
                            if *rl as usize > line {
                                *rl -= 1;
                            }
                        }
                        _ => {}
                    }
                }
                if ok {
                    if let Some(w) = still(def, &c, &bestv) {
                        best = c;
                        bestv = w;
                        progress = true;
                        continue; // same index now holds the next line
                    }
                }
                line += 1;
            }
        }
        // 3. drop barriers
        for i in 0..best.script.len() {
            if best.script[i].wait && !out_of_time(&t0) {
                let mut c = best.clone();
                c.script[i].wait = false;
                if let Some(w) = still(def, &c, &bestv) {
                    best = c;
                    bestv = w;
                    progress = true;
                }
            }
        }
        // 3b. plain header blocks
        if best.script.iter().any(|st| st.hdr != 0) && !out_of_time(&t0) {
            let mut c = best.clone();
            c.script.iter_mut().for_each(|st| st.hdr = 0);
            if let Some(w) = still(def, &c, &bestv) {
                best = c;
                bestv = w;
                progress = true;
            }
        }
        // 4. shrink edits in batches and texts
        for i in 0..best.script.len() {
            if out_of_time(&t0) {
                break;
            }
            match best.script[i].op.clone() {
                ClientOp::Change { uri, edits } => {
                    if edits.len() > 1 {
                        for k in 0..edits.len() {
                            let mut e = edits.clone();
                            e.remove(k);
                            let mut c = best.clone();
                            c.script[i].op = ClientOp::Change { uri: uri.clone(), edits: e };
                            if let Some(w) = still(def, &c, &bestv) {
                                best = c;
                                bestv = w;
                                progress = true;
                                break;
                            }
                        }
                    }
                    if let ClientOp::Change { uri, edits } = best.script[i].op.clone() {
                        for k in 0..edits.len() {
                            for cand in shrink_text_candidates(&edits[k].text).into_iter().take(12) {
                                if out_of_time(&t0) {
                                    break;
                                }
                                let mut e = edits.clone();
                                e[k].text = cand;
                                let mut c = best.clone();
                                c.script[i].op = ClientOp::Change { uri: uri.clone(), edits: e };
                                if let Some(w) = still(def, &c, &bestv) {
                                    best = c;
                                    bestv = w;
                                    progress = true;
                                    break;
                                }
                            }
                        }
                    }
                }
                ClientOp::Open { uri, text } => {
                    let mut cur = text.clone();
                    let mut improved = true;
                    let mut rounds = 0;
                    while improved && rounds < 40 && !out_of_time(&t0) {
                        improved = false;
                        rounds += 1;
                        for cand in shrink_text_candidates(&cur) {
                            if out_of_time(&t0) {
                                break;
                            }
                            if cand.len() >= cur.len() {
                                continue;
                            }
                            let mut c = best.clone();
                            c.script[i].op = ClientOp::Open { uri: uri.clone(), text: cand.clone() };
                            if let Some(w) = still(def, &c, &bestv) {
                                best = c;
                                bestv = w;
                                cur = cand;
                                improved = true;
                                progress = true;
                                break;
                            }
                        }
                    }
                }
                _ => {}
            }
        }
    }
    (best, bestv)
}
