//! Executes one scenario against the real server code under the simulator and records the history.
use super::client::{frames_of, FrameParser, RxFrame, RxMsg};
use super::scenario::*;
use spl_frontend::tokens::{Token, TokenChange};
use spl_frontend::{AnalyzedSource, TextChange};
use std::cell::RefCell;
use std::collections::HashSet;
use std::rc::Rc;
use tokio::sim::{
    self, Op, PanicReport, PollOutcome, ProcessEnd, Rng, RunCfg, Sim, Summary, ACTOR_CLIENT_RX,
    ACTOR_CLIENT_TX,
};

#[derive(Clone, Debug, Default)]
pub struct RunOptions {
    pub observe_docs: bool,
    pub observe_lex: bool,
    pub keep_events: bool,
}

#[derive(Clone, Debug)]
pub struct DocObs {
    pub uri: String,
    pub doc: AnalyzedSource,
    pub tick: u64,
}

#[derive(Clone, Debug)]
pub struct LexObs {
    pub old: Vec<Token>,
    pub new: Vec<Token>,
    pub window: TokenChange,
    pub text: String,
    pub change: TextChange,
}

#[derive(Clone, Debug, PartialEq)]
pub enum Hang {
    /// no actor enabled, no timed event pending, process still alive
    Deadlock { detail: String },
    /// the step bound was exceeded
    StepBound { steps: u64 },
}

#[derive(Clone, Debug, Default)]
pub struct Fired {
    pub chunk_split_frames: u64,
    pub coalesced_frames: u64,
    pub delay: u64,
    pub eof: u64,
    pub eof_mid_frame: u64,
    pub read_error: u64,
    pub epipe: u64,
    pub stall_rx: u64,
    pub short_write: u64,
    pub burst: u64,
    pub exit_with_queued_output: u64,
    pub sticky_runs: u64,
    pub prio_changes: u64,
}

pub struct RunRecord {
    pub frames: Vec<RxFrame>,
    pub framing_error: Option<String>,
    /// bytes of an incomplete last frame left in the client's parser when the run ended
    pub trailing: Vec<u8>,
    pub end: Option<ProcessEnd>,
    pub task_panics: Vec<(u16, PanicReport)>,
    pub hang: Option<Hang>,
    /// offsets (exclusive) in the session byte stream at which each script frame ends
    pub frame_ends: Vec<usize>,
    /// bytes of the session stream the client wrote before the run ended
    pub written: usize,
    /// bytes the server consumed from stdin
    pub consumed: u64,
    pub eof_at: Option<usize>,
    /// the stream ended with an I/O error instead of end of input
    pub read_error: bool,
    pub epipe_fired: bool,
    pub doc_obs: Vec<DocObs>,
    pub lex_obs: Vec<LexObs>,
    pub fired: Fired,
    pub summary: Summary,
    pub states: HashSet<u64>,
    pub steps: u64,
    /// tick at which the last byte of script frame i was written (u64::MAX = never)
    pub sent_tick: Vec<u64>,
    pub rx_bytes: u64,
}

impl RunRecord {
    pub fn responses(&self) -> Vec<(i64, Option<&serde_json::Value>, Option<i64>)> {
        self.frames
            .iter()
            .filter_map(|f| match &f.msg {
                RxMsg::Response {
                    id,
                    result,
                    error_code,
                } => Some((*id, result.as_ref(), *error_code)),
                _ => None,
            })
            .collect()
    }

    pub fn status(&self) -> Option<i32> {
        self.end.as_ref().map(|e| e.status())
    }

    /// number of script frames completely consumed... delivered to the server's stdin
    pub fn frames_fully_written(&self) -> usize {
        self.frame_ends.iter().filter(|&&e| e <= self.written).count()
    }
}

struct Segment {
    start: usize,
    end: usize,
    /// number of responses that must have been received before this segment may be written
    need_responses: Option<usize>,
}

fn build_segments(sc: &Scenario, frames: &[Vec<u8>], total: usize) -> (Vec<Segment>, Vec<usize>) {
    let mut frame_starts = vec![];
    let mut frame_ends = vec![];
    let mut off = 0;
    for f in frames {
        frame_starts.push(off);
        off += f.len();
        frame_ends.push(off);
    }
    // barriers
    let mut barrier_at: Vec<(usize, usize)> = vec![]; // (offset, responses needed)
    let mut reqs = 0;
    for (i, st) in sc.script.iter().enumerate() {
        if st.wait {
            barrier_at.push((frame_starts[i], reqs));
        }
        if st.op.request_id().is_some() {
            reqs += 1;
        }
    }
    let mut cuts: Vec<usize> = vec![];
    match &sc.segmentation {
        Segmentation::Frames => cuts.extend(frame_ends.iter().copied()),
        Segmentation::Fixed { k } => {
            let k = (*k).max(1);
            // restart the grid at every barrier so that barriers do not shift the pattern
            let mut base = 0;
            let mut stops: Vec<usize> = barrier_at.iter().map(|b| b.0).collect();
            stops.push(total);
            for s in stops {
                let mut p = base + k;
                while p < s {
                    cuts.push(p);
                    p += k;
                }
                base = s;
            }
        }
        Segmentation::Cuts { at } => cuts.extend(at.iter().copied()),
        Segmentation::Coalesced => {}
    }
    cuts.extend(barrier_at.iter().map(|b| b.0));
    cuts.push(total);
    cuts.retain(|&c| c > 0 && c <= total);
    cuts.sort_unstable();
    cuts.dedup();
    let mut segs = vec![];
    let mut start = 0;
    for c in cuts {
        let need = barrier_at.iter().find(|b| b.0 == start).map(|b| b.1);
        segs.push(Segment {
            start,
            end: c,
            need_responses: need,
        });
        start = c;
    }
    (segs, frame_ends)
}

pub fn session_bytes(sc: &Scenario) -> (Vec<Vec<u8>>, Vec<u8>) {
    let frames: Vec<Vec<u8>> = frames_of(&sc.script);
    let stream: Vec<u8> = frames.iter().flatten().copied().collect();
    (frames, stream)
}

fn server_main() -> impl std::future::Future<Output = bool> + 'static {
    use lsp_types::{ServerCapabilities, ServerInfo};
    async {
        let ls = crate::server::LanguageServer::setup(
            Some(ServerInfo {
                name: "LSP4SPL".to_string(),
                version: Some("0.1".to_string()),
            }),
            ServerCapabilities::default(),
        );
        ls.run().await.is_ok()
    }
}

pub fn run(sc: &Scenario, opts: &RunOptions) -> RunRecord {
    let (frames, mut stream) = session_bytes(sc);
    let full_len = stream.len();
    let mut eof_at = None;
    let mut read_error = false;
    for f in &sc.faults {
        if let Fault::Eof { at_byte } | Fault::ReadError { at_byte } = f {
            let at = (*at_byte).min(full_len);
            if eof_at.map_or(true, |e: usize| at < e) {
                read_error = matches!(f, Fault::ReadError { .. });
            }
            eof_at = Some(eof_at.map_or(at, |e: usize| e.min(at)));
        }
    }
    if let Some(at) = eof_at {
        stream.truncate(at);
    }
    let total = stream.len();
    let (mut segs, frame_ends) = build_segments(sc, &frames, full_len);
    // clip segments to the truncated stream
    segs.retain(|s| s.start < total || (total == 0 && s.start == 0));
    if total == 0 {
        segs.clear();
    }
    if let Some(last) = segs.last_mut() {
        last.end = last.end.min(total);
    }
    let close_after_last = eof_at.is_some() || sc.close_at_end;

    let mut fired = Fired::default();
    // chunk statistics
    {
        let mut fi = 0;
        for s in &segs {
            // frames with an end strictly inside (start,end) or equal to end
            let mut contained = 0;
            while fi < frame_ends.len() && frame_ends[fi] <= s.end {
                contained += 1;
                fi += 1;
            }
            if contained > 1 {
                fired.coalesced_frames += contained as u64;
            }
            if !frame_ends.contains(&s.end) && s.end < full_len {
                fired.chunk_split_frames += 1;
            }
        }
        if sc.script.len() > 64 && sc.script.iter().filter(|s| s.wait).count() * 40 < sc.script.len() {
            fired.burst += 1;
        }
    }
    let mut delays: Vec<(usize, u64)> = vec![];
    let mut stalls: Vec<(usize, u64)> = vec![];
    let mut epipe_after: Option<usize> = None;
    for f in &sc.faults {
        match f {
            Fault::Delay { segment, ticks } => delays.push((*segment, *ticks)),
            Fault::StallRx {
                from_segment,
                ticks,
            } => stalls.push((*from_segment, *ticks)),
            Fault::Epipe { after_rx_bytes } => {
                epipe_after = Some(epipe_after.map_or(*after_rx_bytes, |e| e.min(*after_rx_bytes)))
            }
            Fault::Eof { .. } | Fault::ReadError { .. } => {}
        }
    }

    // observers
    let doc_obs: Rc<RefCell<Vec<DocObs>>> = Rc::new(RefCell::new(vec![]));
    let lex_obs: Rc<RefCell<Vec<LexObs>>> = Rc::new(RefCell::new(vec![]));
    if opts.observe_docs {
        let d = doc_obs.clone();
        crate::verif::set_doc_observer(Some(Box::new(move |uri, doc| {
            d.borrow_mut().push(DocObs {
                uri: uri.to_string(),
                doc: doc.clone(),
                tick: 0,
            });
        })));
    } else {
        crate::verif::set_doc_observer(None);
    }
    if opts.observe_lex {
        let l = lex_obs.clone();
        spl_frontend::verif::set_lex_observer(Some(Box::new(move |old, new, win, text, ch| {
            l.borrow_mut().push(LexObs {
                old: old.to_vec(),
                new: new.to_vec(),
                window: win.clone(),
                text: text.to_string(),
                change: ch.clone(),
            });
        })));
    } else {
        spl_frontend::verif::set_lex_observer(None);
    }
    crate::verif::set_exit_handler(Some(Box::new(|code| sim::exit_process(code))));

    let cfg = RunCfg {
        yield_permille: sc.knobs.yield_permille,
        chan_caps: sc.knobs.chan_caps.to_vec(),
        read_cap: sc.knobs.read_cap,
        read_cap_random: sc.knobs.read_cap_random,
        stdout_cap: sc.knobs.stdout_cap.max(1),
        short_write_permille: sc.knobs.short_write_permille,
        seed: sc.schedule.seed,
        keep_events: opts.keep_events,
        workers: sc.knobs.workers,
    };
    let mut sim = Sim::start(cfg, server_main());
    let mut rng = Rng::derive(sc.schedule.seed, "schedule");

    // scheduler state
    let mut last_actor: Option<u16> = None;
    let mut prios: std::collections::HashMap<u16, i64> = std::collections::HashMap::new();
    let mut change_points: Vec<u64> = vec![];
    let mut low_water: i64 = 0;
    if let Policy::Pct { changes, horizon } = &sc.schedule.policy {
        for _ in 0..*changes {
            change_points.push(rng.below((*horizon).max(1) as usize) as u64);
        }
    }

    let mut parser = FrameParser::default();
    let mut rx_frames: Vec<RxFrame> = vec![];
    let mut responses_seen = 0usize;
    let mut next_seg = 0usize;
    let mut seg_ready_at: u64 = 0;
    let mut stdin_closed = false;
    let mut rx_closed = false;
    let mut stall_until: u64 = 0;
    let mut written = 0usize;
    let mut rx_bytes: u64 = 0;
    let mut steps: u64 = 0;
    let mut hang = None;
    let mut states: HashSet<u64> = HashSet::new();
    let mut sent_tick = vec![u64::MAX; frames.len()];
    let mut epipe_fired = false;
    if let Some((_, t)) = delays.iter().find(|d| d.0 == 0) {
        seg_ready_at = *t;
        fired.delay += 1;
    }

    loop {
        if sim.ended().is_some() {
            break;
        }
        steps += 1;
        super::core::heartbeat();
        let bound = 20_000 + 400 * frames.len() as u64 + 8 * (full_len as u64 + rx_bytes);
        if steps > bound {
            if std::env::var("VERIF_TRACE_HANG").is_ok() {
                eprintln!(
                    "step bound: steps={steps} bound={bound} tasks={} runnable={:?} next_seg={next_seg}/{} stdin_pending={} stdout_avail={} responses_seen={responses_seen} tick={}",
                    sim.task_count(),
                    sim.runnable(),
                    segs.len(),
                    sim.stdin_pending(),
                    sim.stdout_available(),
                    sim.tick()
                );
            }
            hang = Some(Hang::StepBound { steps });
            break;
        }
        let now = sim.tick();
        let mut enabled: Vec<u16> = sim.runnable();
        let guard_ok = next_seg < segs.len()
            && segs[next_seg]
                .need_responses
                .map_or(true, |n| responses_seen >= n || rx_closed); // a client that closed its read end no longer waits
        let tx_pending_close = next_seg >= segs.len() && close_after_last && !stdin_closed;
        if (guard_ok && now >= seg_ready_at) || tx_pending_close {
            enabled.push(ACTOR_CLIENT_TX);
        }
        let epipe_due = !rx_closed && epipe_after.map_or(false, |n| rx_bytes as usize >= n);
        let rx_has = !rx_closed && sim.stdout_available() > 0;
        if epipe_due || (rx_has && now >= stall_until) {
            enabled.push(ACTOR_CLIENT_RX);
        }
        if enabled.is_empty() {
            // discrete-event rule: jump to the next timed event, if there is one
            let mut next: Option<u64> = None;
            if guard_ok && seg_ready_at > now {
                next = Some(seg_ready_at);
            }
            if rx_has && stall_until > now {
                next = Some(next.map_or(stall_until, |n| n.min(stall_until)));
            }
            // timers of the simulated clock (tokio::time::sleep / timeout in the code under test)
            if let Some(t) = sim.next_timer() {
                if t > now {
                    next = Some(next.map_or(t, |n| n.min(t)));
                }
            }
            match next {
                Some(t) => {
                    sim.jump_to(t);
                    continue;
                }
                None => {
                    hang = Some(Hang::Deadlock {
                        detail: format!(
                            "no actor enabled at tick {now}: segments written {next_seg}/{}, responses seen {responses_seen}, waiting for {:?}, stdin pending {}, stdout pending {}, channel depths {:?}",
                            segs.len(),
                            segs.get(next_seg).and_then(|s| s.need_responses),
                            sim.stdin_pending(),
                            sim.stdout_available(),
                            sim.chan_depths()
                        ),
                    });
                    break;
                }
            }
        }
        // ---- the seeded scheduler picks ----
        let actor = match &sc.schedule.policy {
            Policy::Fifo => {
                let mut sorted = enabled.clone();
                sorted.sort_unstable();
                match last_actor {
                    Some(l) => *sorted.iter().find(|&&a| a > l).unwrap_or(&sorted[0]),
                    None => sorted[0],
                }
            }
            Policy::Uniform => *rng.pick(&enabled),
            Policy::Sticky { permille } => {
                if let Some(l) = last_actor {
                    if enabled.contains(&l) && rng.chance(*permille) {
                        fired.sticky_runs += 1;
                        l
                    } else {
                        *rng.pick(&enabled)
                    }
                } else {
                    *rng.pick(&enabled)
                }
            }
            Policy::Pct { .. } => {
                for a in &enabled {
                    if !prios.contains_key(a) {
                        let p = 1 + rng.below(1_000_000) as i64;
                        prios.insert(*a, p);
                    }
                }
                let a = *enabled.iter().max_by_key(|a| (prios[a], **a)).unwrap();
                if change_points.contains(&steps) {
                    low_water -= 1;
                    prios.insert(a, low_water);
                    fired.prio_changes += 1;
                }
                a
            }
        };
        last_actor = Some(actor);
        match actor {
            ACTOR_CLIENT_TX => {
                sim.advance(ACTOR_CLIENT_TX);
                if next_seg < segs.len() {
                    let s = &segs[next_seg];
                    let end = s.end.min(total);
                    sim.stdin_push(&stream[s.start..end]);
                    written = end;
                    let t = sim.tick();
                    for (i, fe) in frame_ends.iter().enumerate() {
                        if *fe <= written && sent_tick[i] == u64::MAX {
                            sent_tick[i] = t;
                        }
                    }
                    for (seg, ticks) in &stalls {
                        if *seg == next_seg {
                            stall_until = stall_until.max(t + ticks);
                            fired.stall_rx += 1;
                            sim.note(Op::ClientStall, *ticks as u32, 0);
                        }
                    }
                    next_seg += 1;
                    seg_ready_at = t;
                    if let Some((_, ticks)) = delays.iter().find(|d| d.0 == next_seg) {
                        seg_ready_at = t + ticks;
                        fired.delay += 1;
                    }
                } else {
                    // counted when it happens, not when it is configured
                    if read_error {
                        sim.stdin_fail();
                        fired.read_error += 1;
                    } else {
                        sim.stdin_close();
                        if let Some(at) = eof_at {
                            fired.eof += 1;
                            if at != 0 && !frame_ends.contains(&at) {
                                fired.eof_mid_frame += 1;
                            }
                        }
                    }
                    stdin_closed = true;
                }
            }
            ACTOR_CLIENT_RX => {
                sim.advance(ACTOR_CLIENT_RX);
                if epipe_due {
                    sim.stdout_close_reader();
                    rx_closed = true;
                    epipe_fired = true;
                    fired.epipe += 1;
                } else {
                    let max = if sc.knobs.rx_chunk == 0 {
                        usize::MAX
                    } else {
                        sc.knobs.rx_chunk
                    };
                    let bytes = sim.stdout_drain(max);
                    rx_bytes += bytes.len() as u64;
                    parser.push(&bytes);
                    while let Some(msg) = parser.next() {
                        // a malformed message that looks like an answer (it has an id member or a
                        // result / error) still lets a waiting client go on; it is judged later
                        let answer_like = match &msg {
                            RxMsg::Response { .. } => true,
                            RxMsg::Malformed { body, .. } => body.contains("\"id\"") || body.contains("\"result\"") || body.contains("\"error\""),
                            _ => false,
                        };
                        if answer_like {
                            responses_seen += 1;
                        }
                        rx_frames.push(RxFrame {
                            msg,
                            tick: sim.tick(),
                            at_rx_bytes: rx_bytes,
                        });
                    }
                }
            }
            task => {
                let depths_before = sim.chan_depths();
                match sim.poll(task) {
                    PollOutcome::ProcessEnded(ProcessEnd::Exit(_)) => {
                        if depths_before[0] > 0 {
                            fired.exit_with_queued_output += 1;
                        }
                    }
                    _ => {}
                }
            }
        }
        // state measure: (tasks alive, iotx depth bucket, doctx depth bucket, stdout fill bucket,
        // stdin backlog bucket)
        {
            let d = sim.chan_depths();
            let b = |x: i64| -> u64 {
                match x {
                    i64::MIN..=0 => 0,
                    1 => 1,
                    2..=3 => 2,
                    4..=15 => 3,
                    16..=31 => 4,
                    _ => 5,
                }
            };
            // the first eight tasks by identity, the others (one task per request or per piece of
            // blocking work in some designs) by number, capped
            let alive: u64 = (0..sim.task_count().min(8) as u16)
                .map(|t| (sim.task_alive(t) as u64) << t)
                .sum::<u64>()
                | ((8..sim.task_count() as u16).filter(|t| sim.task_alive(*t)).count().min(3) as u64) << 24;
            let fill = (sim.stdout_available() * 4 / sc.knobs.stdout_cap.max(1)).min(4) as u64;
            let backlog = match sim.stdin_pending() {
                0 => 0u64,
                1..=63 => 1,
                64..=1023 => 2,
                _ => 3,
            };
            states.insert(alive | b(d[0]) << 8 | b(d[1]) << 12 | fill << 16 | backlog << 20);
        }
    }

    // a dead process leaves what it wrote in the pipe: the client can still read it
    if !rx_closed {
        let bytes = sim.stdout_drain(usize::MAX);
        rx_bytes += bytes.len() as u64;
        parser.push(&bytes);
        while let Some(msg) = parser.next() {
            rx_frames.push(RxFrame {
                msg,
                tick: sim.tick(),
                at_rx_bytes: rx_bytes,
            });
        }
    }
    let end = sim.ended().cloned();
    let task_panics = sim.task_panics.clone();
    let consumed = sim.stdin_delivered();
    let counters = sim.counters();
    fired.short_write = counters.stdout_short;
    let summary = sim.finish();
    crate::verif::set_doc_observer(None);
    crate::verif::set_exit_handler(None);
    spl_frontend::verif::set_lex_observer(None);
    let doc_obs = std::mem::take(&mut *doc_obs.borrow_mut());
    let lex_obs = std::mem::take(&mut *lex_obs.borrow_mut());
    RunRecord {
        frames: rx_frames,
        framing_error: parser.error.clone(),
        trailing: parser.leftover_bytes().to_vec(),
        end,
        task_panics,
        hang,
        frame_ends,
        written,
        consumed,
        eof_at,
        read_error,
        epipe_fired,
        doc_obs,
        lex_obs,
        fired,
        summary,
        states,
        steps,
        sent_tick,
        rx_bytes,
    }
}
