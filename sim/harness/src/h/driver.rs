//! Batch driver: seeded search over scenarios on all cores, known-finding handling, minimisation,
//! replay files, evidence files.
use super::core::*;
use super::minimize;
use super::scenario::{ClientOp, Scenario};
use serde_json::{json, Value};
use std::collections::{BTreeMap, HashSet};
use std::path::{Path, PathBuf};
use std::sync::atomic::{AtomicBool, AtomicU64, Ordering};
use std::sync::Mutex;
use std::time::Instant;

pub struct PropDef {
    pub id: &'static str,
    pub level: &'static str,
    /// scenario for work item `idx` (sweeps first, then seeded random scenarios); `None` = past the
    /// end of this tier's work list
    pub work: fn(seed: u64, tier: Tier, idx: u64) -> Option<Scenario>,
    pub judge: fn(&Scenario) -> Judgement,
    pub rule: &'static str,
    pub assumptions: &'static [&'static str],
    /// wall-clock cap in seconds for (quick, thorough); reaching it ends the batch early (reported)
    pub wall_cap: (u64, u64),
}

pub fn verif_root() -> PathBuf {
    std::env::var("VERIF_ROOT")
        .map(PathBuf::from)
        .unwrap_or_else(|_| PathBuf::from("/verif"))
}

#[derive(Default)]
struct Agg {
    scenarios: u64,
    runs: u64,
    nontrivial_sigs: HashSet<u64>,
    all_sigs: HashSet<u64>,
    states: HashSet<u64>,
    ticks: u64,
    steps: u64,
    events: u64,
    bytes_in: u64,
    bytes_out: u64,
    comparisons: u64,
    fired_total: BTreeMap<&'static str, u64>,
    fired_runs: BTreeMap<&'static str, u64>,
    probes: BTreeMap<&'static str, u64>,
    notes: BTreeMap<String, u64>,
    samples: Vec<Value>,
    violations: Vec<(Scenario, Violation)>,
    violation_counts: BTreeMap<(String, String), u64>,
    policies: BTreeMap<String, u64>,
    caps: BTreeMap<String, u64>,
    worker_threads: BTreeMap<String, u64>,
    endings: BTreeMap<String, u64>,
}

fn fired_list(r: &RunStats) -> Vec<(&'static str, u64)> {
    let f = &r.fired;
    let c = &r.counters;
    vec![
        ("chunk: frame split across writes", f.chunk_split_frames),
        ("chunk: frames coalesced in one write", f.coalesced_frames),
        ("delay: segment delayed", f.delay),
        ("eof: stdin closed by client", f.eof),
        ("eof: stdin closed mid-frame", f.eof_mid_frame),
        ("read-error: stdin fails with an I/O error", f.read_error),
        ("epipe: client closed its read end", f.epipe),
        ("stall-rx: client stopped reading", f.stall_rx),
        ("short-write: stdout accepted a strict prefix", f.short_write),
        ("burst: >64 messages without waiting", f.burst),
        ("exit-race: exit with responses still queued", f.exit_with_queued_output),
        ("slow-task: sticky scheduler kept one actor", f.sticky_runs),
        ("slow-task: PCT priority change", f.prio_changes),
        ("yield: seeded yield before a channel/IO operation", c.yields),
        ("back-pressure: sender blocked on full iotx", c.send_blocked[0]),
        ("back-pressure: sender blocked on full doctx", c.send_blocked[1]),
        ("back-pressure: responder blocked on full stdout pipe", c.stdout_full),
        ("reader found stdin empty (partial frame or idle)", c.stdin_empty),
    ]
}

impl Agg {
    fn add(&mut self, sc: &Scenario, j: Judgement) {
        self.scenarios += 1;
        for r in &j.runs {
            self.runs += 1;
            self.all_sigs.insert(r.sig);
            if r.nontrivial {
                self.nontrivial_sigs.insert(r.sig);
            }
            self.states.extend(r.states.iter().copied());
            self.ticks += r.ticks;
            self.steps += r.steps;
            self.events += r.events;
            self.bytes_in += r.bytes_in;
            self.bytes_out += r.bytes_out;
            for (k, v) in fired_list(r) {
                *self.fired_total.entry(k).or_insert(0) += v;
                *self.fired_runs.entry(k).or_insert(0) += (v > 0) as u64;
            }
            *self.endings.entry(r.ended.clone()).or_insert(0) += 1;
        }
        self.comparisons += j.comparisons;
        for (k, v) in j.probes {
            *self.probes.entry(k).or_insert(0) += v;
        }
        for n in j.notes {
            let mut key: String = n.chars().take(160).collect();
            if n.len() > key.len() {
                key.push('…');
            }
            *self.notes.entry(key).or_insert(0) += 1;
        }
        *self
            .policies
            .entry(format!("{:?}", sc.schedule.policy).chars().take(40).collect())
            .or_insert(0) += 1;
        *self.caps.entry(format!("{:?}", sc.knobs.chan_caps)).or_insert(0) += 1;
        *self.worker_threads.entry(format!("{} worker(s)", sc.knobs.workers.max(1))).or_insert(0) += 1;
        if self.samples.len() < 6 && (self.scenarios % 97 == 1 || self.samples.is_empty()) {
            self.samples.push(json!(sc.summary()));
        }
        for v in j.violations {
            // keep the smallest scenario per distinct (clause, signature)
            // signatures are "<stable part> | <volatile details>"
            let key = (v.clause.clone(), v.signature.split(" | ").next().unwrap_or("").to_string());
            *self.violation_counts.entry(key.clone()).or_insert(0) += 1;
            match self.violations.iter_mut().find(|(_, w)| w.clause == key.0 && w.signature.split(" | ").next().unwrap_or("") == key.1) {
                Some(slot) => {
                    if sc.script.len() < slot.0.script.len() {
                        *slot = (sc.clone(), v);
                    }
                }
                None => self.violations.push((sc.clone(), v)),
            }
        }
    }
}

// ------------------------------------------------------------------------------------------
// known findings
// ------------------------------------------------------------------------------------------

#[derive(Clone, Debug, serde::Deserialize)]
pub struct Finding {
    pub property: String,
    pub id: String,
    pub status: String,
    pub what: String,
    /// scenario file relative to the verif root
    #[serde(default)]
    pub replay: Option<String>,
    /// the violation's clause must equal this
    pub clause: String,
    /// every one of these must occur in the violation's signature
    #[serde(default)]
    pub signature_contains: Vec<String>,
    #[serde(default)]
    pub commit: Option<String>,
}

#[derive(Clone, Debug, Default, serde::Deserialize)]
pub struct Findings {
    pub findings: Vec<Finding>,
}

/// Judges a scenario: in this process, or - in isolated mode - in a process of its own.
/// Seconds a single simulated step (or in-process analysis) may take before the watchdog calls
/// it non-terminating: 60 s, plus an allowance for what is legitimately slow - this code base
/// renders every diagnostic by walking the text from its start, so one publication costs
/// (number of errors) x (length of the text), quadratic in the size of a document.
pub fn watchdog_secs(sc: &Scenario) -> u64 {
    let mut biggest = 0usize;
    let mut added = 0usize;
    for st in &sc.script {
        match &st.op {
            ClientOp::Open { text, .. } => biggest = biggest.max(text.len()),
            ClientOp::Change { edits, .. } => added += edits.iter().map(|e| e.text.len()).sum::<usize>(),
            _ => {}
        }
    }
    let kib = ((biggest + added) / 1024) as u64;
    60 + kib * kib * 4 / 1000
}

pub fn judge(def: &PropDef, sc: &Scenario) -> Judgement {
    if super::core::ISOLATED.load(Ordering::Relaxed) && std::env::var("VERIF_IN_CHILD").is_err() {
        judge_in_child(def.id, sc)
    } else {
        (def.judge)(sc)
    }
}

/// Runs the judgement of one scenario in a child process (`simcheck judge-child`). A child that
/// dies is reported by the caller's clause names; one that does not finish within 120 s is killed.
pub fn judge_in_child(prop: &'static str, sc: &Scenario) -> Judgement {
    static N: AtomicU64 = AtomicU64::new(0);
    let mut j = Judgement::default();
    let path = std::env::temp_dir().join(format!("simcheck-child-{}-{}.json", std::process::id(), N.fetch_add(1, Ordering::Relaxed)));
    if std::fs::write(&path, serde_json::to_string(sc).unwrap()).is_err() {
        j.notes.push("harness-limitation: cannot write the child scenario".into());
        return j;
    }
    let exe = std::env::current_exe().expect("current_exe");
    let child = std::process::Command::new(exe)
        .args(["judge-child", prop, path.to_str().unwrap()])
        .env("VERIF_IN_CHILD", "1")
        .stdout(std::process::Stdio::piped())
        .stderr(std::process::Stdio::piped())
        .spawn();
    let mut child = match child {
        Ok(c) => c,
        Err(e) => {
            let _ = std::fs::remove_file(&path);
            j.notes.push(format!("harness-limitation: cannot start the child process: {e}"));
            return j;
        }
    };
    // read the pipes on threads so that a chatty child cannot block on a full pipe
    let (mut so, mut se) = (child.stdout.take().unwrap(), child.stderr.take().unwrap());
    let ho = std::thread::spawn(move || {
        let mut b = String::new();
        let _ = std::io::Read::read_to_string(&mut so, &mut b);
        b
    });
    let he = std::thread::spawn(move || {
        let mut b = Vec::new();
        let _ = std::io::Read::read_to_end(&mut se, &mut b);
        String::from_utf8_lossy(&b).to_string()
    });
    let t0 = Instant::now();
    let status = loop {
        match child.try_wait() {
            Ok(Some(st)) => break Some(st),
            Ok(None) => {
                if t0.elapsed().as_secs() >= 120 {
                    let _ = child.kill();
                    let _ = child.wait();
                    break None;
                }
                super::core::heartbeat();
                std::thread::sleep(std::time::Duration::from_millis(2));
            }
            Err(_) => break None,
        }
    };
    let stdout = ho.join().unwrap_or_default();
    let stderr = he.join().unwrap_or_default();
    let _ = std::fs::remove_file(&path);
    j.probe("scenario judged in a process of its own", 1);
    match status {
        None => {
            j.violate("C02", "hang", "hang child-timeout".into(), "judged in a process of its own, the scenario does not finish within 120 s (non-terminating computation inside the server)".into());
        }
        Some(st) if !st.success() => {
            let overflow = stderr.contains("stack overflow") || stderr.contains("overflowed its stack");
            j.violate(
                "C02",
                if overflow { "stack-overflow" } else { "process-died" },
                if overflow { "stack-overflow".into() } else { "process-died".into() },
                format!(
                    "run in a process of its own{} the process dies ({st:?}): {}",
                    if sc.knobs.stack_kib > 0 { format!(" on a thread with a {} KiB stack (tokio worker threads have 2048 KiB)", sc.knobs.stack_kib) } else { String::new() },
                    stderr.lines().last().unwrap_or("")
                ),
            );
        }
        Some(_) => {
            for l in stdout.lines() {
                if let Some(rest) = l.strip_prefix("CHILD-VIOLATION ") {
                    if let Ok(v) = serde_json::from_str::<Value>(rest) {
                        let property: &'static str = match v["property"].as_str().unwrap_or("") {
                            "C01" => "C01",
                            "C02" => "C02",
                            "C07" => "C07",
                            "C08" => "C08",
                            "C18" => "C18",
                            "C19" => "C19",
                            "C20" => "C20",
                            _ => continue,
                        };
                        j.violate(
                            property,
                            v["clause"].as_str().unwrap_or(""),
                            v["signature"].as_str().unwrap_or("").to_string(),
                            v["detail"].as_str().unwrap_or("").to_string(),
                        );
                    }
                } else if let Some(rest) = l.strip_prefix("CHILD-NOTE ") {
                    j.notes.push(rest.to_string());
                } else if let Some(rest) = l.strip_prefix("CHILD-RUNS ") {
                    for _ in 0..rest.trim().parse::<usize>().unwrap_or(0) {
                        j.runs.push(RunStats::default());
                    }
                }
            }
        }
    }
    j
}

pub fn verif_root_pub() -> std::path::PathBuf {
    verif_root()
}

pub fn load_findings() -> Findings {
    let p = verif_root().join("known_findings.json");
    match std::fs::read_to_string(&p) {
        Ok(s) => serde_json::from_str(&s).unwrap_or_else(|e| {
            eprintln!("HARNESS-ERROR: cannot parse {}: {e}", p.display());
            std::process::exit(2)
        }),
        Err(_) => Findings::default(),
    }
}

impl Finding {
    pub fn matches(&self, v: &Violation) -> bool {
        self.status == "open"
            && self.property == v.property
            && (self.clause == "*" || self.clause == v.clause)
            && self.signature_contains.iter().all(|s| v.signature.contains(s))
    }
}

// ------------------------------------------------------------------------------------------
// the batch
// ------------------------------------------------------------------------------------------

pub fn load_scenario(path: &Path) -> Scenario {
    let s = std::fs::read_to_string(path).unwrap_or_else(|e| {
        eprintln!("HARNESS-ERROR: cannot read {}: {e}", path.display());
        std::process::exit(2)
    });
    serde_json::from_str(&s).unwrap_or_else(|e| {
        eprintln!("HARNESS-ERROR: cannot parse {}: {e}", path.display());
        std::process::exit(2)
    })
}

/// Replays a scenario file; prints what it found; returns the violations.
pub fn replay(def: &PropDef, path: &Path, quiet: bool) -> Vec<Violation> {
    let sc = load_scenario(path);
    // the same watchdog as in a check: a replay of a non-terminating computation must report it,
    // not hang
    let j = {
        let (tx, rx) = std::sync::mpsc::channel();
        let sc2 = sc.clone();
        let judge = def.judge;
        std::thread::Builder::new()
            .stack_size(256 << 20)
            .spawn(move || {
                super::core::WORKER.with(|c| c.set(0));
                let _ = tx.send(judge(&sc2));
            })
            .expect("spawn");
        let mut last = (super::core::HEARTBEAT[0].load(Ordering::Relaxed), Instant::now());
        loop {
            match rx.recv_timeout(std::time::Duration::from_millis(200)) {
                Ok(j) => break j,
                Err(std::sync::mpsc::RecvTimeoutError::Disconnected) => {
                    println!("HARNESS-ERROR: the replay thread panicked");
                    std::process::exit(2);
                }
                Err(_) => {
                    let b = super::core::HEARTBEAT[0].load(Ordering::Relaxed);
                    if b != last.0 {
                        last = (b, Instant::now());
                    }
                    if last.1.elapsed().as_secs() >= watchdog_secs(&sc) {
                        println!("replay {}: {}", path.display(), sc.summary());
                        println!("WATCHDOG: one simulated step has been running for {} s (non-terminating computation inside the server)", watchdog_secs(&sc));
                        println!("REPLAY-VIOLATION property=C02 clause=hang signature=hang watchdog :: a computation inside the server does not terminate");
                        if def.id == "C02" {
                            println!("VIOLATION property=C02 replay={}", path.display());
                            std::process::exit(1);
                        }
                        println!("HARNESS-ERROR: watchdog fired in a {} replay (a C02 matter)", def.id);
                        std::process::exit(2);
                    }
                }
            }
        }
    };
    if !quiet {
        println!("replay {}: {}", path.display(), sc.summary());
        for n in &j.notes {
            println!("NOTE {n}");
        }
        for v in &j.violations {
            println!(
                "REPLAY-VIOLATION property={} clause={} signature={} :: {}",
                v.property, v.clause, v.signature, v.detail
            );
        }
        if j.violations.is_empty() {
            println!("replay: no violation");
        }
    }
    j.violations
}

fn fresh_process_replay(prop: &str, path: &Path) -> Option<Vec<(String, String)>> {
    let exe = std::env::current_exe().ok()?;
    let out = std::process::Command::new(exe)
        .args(["replay", prop, path.to_str()?])
        .output()
        .ok()?;
    let text = String::from_utf8_lossy(&out.stdout);
    let mut found = vec![];
    for l in text.lines() {
        if let Some(rest) = l.strip_prefix("REPLAY-VIOLATION ") {
            let clause = rest
                .split_whitespace()
                .find_map(|w| w.strip_prefix("clause="))
                .unwrap_or("")
                .to_string();
            let sig = rest
                .split(" :: ")
                .next()
                .and_then(|h| h.split("signature=").nth(1))
                .unwrap_or("")
                .to_string();
            found.push((clause, sig));
        }
    }
    Some(found)
}

pub struct Watch {
    pub current: Vec<Mutex<Option<(Instant, String)>>>,
}

pub fn run_check(def: &PropDef, tier: Tier, seed: u64, max_items: Option<u64>) -> i32 {
    let t0 = Instant::now();
    let root = verif_root();
    let findings = load_findings();
    let my_findings: Vec<&Finding> = findings
        .findings
        .iter()
        .filter(|f| f.property == def.id)
        .collect();
    let mut exit_code = 0;
    let mut known_lines: Vec<String> = vec![];
    let mut violation_lines: Vec<String> = vec![];
    let mut replayed_findings: Vec<Value> = vec![];

    // 1. replay the committed finding scenarios
    for f in &my_findings {
        let Some(rp) = &f.replay else { continue };
        // (regression runs of kept changes on the tree they were written for - before the repair
        // of C18-K1 - leave that finding's scenario out, like the string-id sessions; see
        // tools/preserving_all.sh)
        if f.id == "C18-K1" && std::env::var("VERIF_NO_SID").is_ok() {
            continue;
        }
        let path = root.join(rp);
        if !path.exists() {
            eprintln!("HARNESS-ERROR: finding {} refers to missing {}", f.id, path.display());
            return 2;
        }
        let sc = load_scenario(&path);
        let j = judge(def, &sc);
        let own: Vec<&Violation> = j.violations.iter().filter(|v| v.property == def.id).collect();
        if f.status == "open" {
            let still = own.iter().any(|v| f.matches(v));
            replayed_findings.push(json!({"id": f.id, "status": "open", "still_reproduces": still}));
            if still {
                known_lines.push(format!("KNOWN-FINDING: property={} {} [{}]", def.id, f.what, f.id));
            } else {
                println!(
                    "NOTE finding {} no longer reproduces from {} (it may have been fixed)",
                    f.id, rp
                );
            }
            // a different violation on the finding's scenario is a new violation
            for v in own.iter().filter(|v| !findings.findings.iter().any(|g| g.matches(v))) {
                let p = write_replay(&root, def.id, &sc, v, "finding-scenario");
                violation_lines.push(format!("VIOLATION property={} replay={}", def.id, p.display()));
                println!("  {} :: {}", v.clause, v.detail);
                exit_code = 1;
            }
        } else {
            // fixed: an ordinary regression scenario; nothing is suppressed
            let bad: Vec<&&Violation> = own
                .iter()
                .filter(|v| !findings.findings.iter().any(|g| g.matches(v)))
                .collect();
            replayed_findings.push(json!({"id": f.id, "status": "fixed", "regressed": !bad.is_empty()}));
            if let Some(v) = bad.first() {
                let p = write_replay(&root, def.id, &sc, v, "regression");
                violation_lines.push(format!("VIOLATION property={} replay={}", def.id, p.display()));
                println!(
                    "  regression of fixed finding {}: {} :: {}",
                    f.id, v.clause, v.detail
                );
                exit_code = 1;
            }
        }
    }

    // 2. the seeded search
    let cap = if tier == Tier::Quick { def.wall_cap.0 } else { def.wall_cap.1 };
    let cap = std::env::var("VERIF_WALL_CAP").ok().and_then(|s| s.parse().ok()).unwrap_or(cap);
    let workers: usize = std::env::var("VERIF_WORKERS")
        .ok()
        .and_then(|s| s.parse().ok())
        .unwrap_or_else(|| std::thread::available_parallelism().map(|n| n.get()).unwrap_or(4));
    let isolated = super::core::ISOLATED.load(Ordering::Relaxed);
    let max_items = if isolated { Some(max_items.unwrap_or(u64::MAX).min(if tier == Tier::Quick { 20_000 } else { 200_000 })) } else { max_items };
    if isolated {
        println!("isolated mode: every scenario is judged in a process of its own");
    }
    let next = AtomicU64::new(0);
    let stop = AtomicBool::new(false);
    let capped = AtomicBool::new(false);
    let agg = Mutex::new(Agg::default());
    let watch: Vec<Mutex<Option<(Instant, Scenario)>>> = (0..workers).map(|_| Mutex::new(None)).collect();
    let done_workers = AtomicU64::new(0);
    let harness_panic = AtomicBool::new(false);
    let scope_result = std::panic::catch_unwind(std::panic::AssertUnwindSafe(|| std::thread::scope(|s| {
        for w in 0..workers {
            let (next, stop, agg, capped, watch, done_workers, harness_panic) = (&next, &stop, &agg, &capped, &watch, &done_workers, &harness_panic);
            std::thread::Builder::new()
                .stack_size(256 << 20)
                .spawn_scoped(s, move || {
                    // a panic of the harness itself (generator, oracle) must end the check as a
                    // harness error, never hang it or pass for a verdict
                    struct Done<'a>(&'a AtomicU64, &'a AtomicBool);
                    impl Drop for Done<'_> {
                        fn drop(&mut self) {
                            if std::thread::panicking() {
                                self.1.store(true, Ordering::Relaxed);
                            }
                            self.0.fetch_add(1, Ordering::Relaxed);
                        }
                    }
                    let _done = Done(done_workers, harness_panic);
                    super::core::WORKER.with(|c| c.set(w.min(254)));
                    loop {
                        if stop.load(Ordering::Relaxed) || harness_panic.load(Ordering::Relaxed) {
                            break;
                        }
                        if t0.elapsed().as_secs() >= cap {
                            capped.store(true, Ordering::Relaxed);
                            break;
                        }
                        let idx = next.fetch_add(1, Ordering::Relaxed);
                        if let Some(m) = max_items {
                            if idx >= m {
                                break;
                            }
                        }
                        let Some(sc) = (def.work)(seed, tier, idx) else { break };
                        *watch[w].lock().unwrap() = Some((Instant::now(), sc.clone()));
                        let j = judge(def, &sc);
                        *watch[w].lock().unwrap() = None;
                        let mut a = agg.lock().unwrap();
                        a.add(&sc, j);
                        if a.violations.len() >= 60 {
                            stop.store(true, Ordering::Relaxed);
                        }
                    }
                })
                .expect("spawn worker");
        }
        // watchdog: a single poll that never returns (non-terminating analysis) is a C02 finding,
        // reported with the scenario that was executing
        let (watch, done_workers) = (&watch, &done_workers);
        let mut beats: Vec<(u64, Instant)> = (0..workers).map(|_| (0, Instant::now())).collect();
        s.spawn(move || loop {
            std::thread::sleep(std::time::Duration::from_millis(200));
            if done_workers.load(Ordering::Relaxed) as usize >= workers {
                break;
            }
            for (w, slot) in watch.iter().enumerate() {
                let g = slot.lock().unwrap();
                if let Some((since, sc)) = g.as_ref() {
                    // fires only if the worker made no scheduler step (and finished no scenario)
                    // for 60 s: a computation inside one poll, or inside an in-process analysis,
                    // that does not return
                    let beat = super::core::HEARTBEAT[w.min(254)].load(Ordering::Relaxed);
                    let (last_beat, last_change) = &mut beats[w];
                    if *last_beat != beat || *since > *last_change {
                        *last_beat = beat;
                        *last_change = Instant::now().max(*since);
                    }
                    if last_change.elapsed().as_secs() >= watchdog_secs(sc) {
                        let dir = verif_root().join("replays");
                        let _ = std::fs::create_dir_all(&dir);
                        let p = dir.join(format!("{}-hang-{}.json", sc.property, sc.seed));
                        let _ = std::fs::write(&p, serde_json::to_string_pretty(sc).unwrap());
                        println!(
                            "WATCHDOG: one simulated step has been running for {} s (non-terminating computation inside the server); scenario written to {}",
                            watchdog_secs(sc),
                            p.display()
                        );
                        if sc.property == "C02" {
                            println!("VIOLATION property=C02 replay={}", p.display());
                            std::process::exit(1);
                        } else {
                            println!("HARNESS-ERROR: watchdog fired in a {} run (a C02 matter)", sc.property);
                            std::process::exit(2);
                        }
                    }
                }
            }
        });
    })));
    if scope_result.is_err() || harness_panic.load(Ordering::Relaxed) {
        println!("HARNESS-ERROR: a worker of the harness panicked (generator or oracle defect, see the panic message above); no verdict");
        return 2;
    }
    let mut agg = match agg.into_inner() {
        Ok(a) => a,
        Err(_) => {
            println!("HARNESS-ERROR: a worker of the harness panicked while aggregating; no verdict");
            return 2;
        }
    };

    // 3. violations: match against known findings, minimise the rest, verify replay in a fresh process
    let mut new_groups: Vec<(Scenario, Violation)> = vec![];
    let mut known_hits: BTreeMap<String, u64> = BTreeMap::new();
    let mut foreign = 0u64;
    for ((c, sg), n) in &agg.violation_counts {
        println!("  {n:>6}x {c} :: {}", sg.chars().take(200).collect::<String>());
    }
    for (sc, v) in std::mem::take(&mut agg.violations) {
        if v.property != def.id {
            foreign += 1;
            continue;
        }
        if let Some(f) = findings.findings.iter().find(|f| f.matches(&v)) {
            *known_hits.entry(f.id.clone()).or_insert(0) += 1;
            continue;
        }
        if !new_groups
            .iter()
            .any(|(_, w)| w.clause == v.clause && w.signature == v.signature)
        {
            new_groups.push((sc, v));
        }
    }
    for (id, n) in &known_hits {
        let f = findings.findings.iter().find(|f| &f.id == id).unwrap();
        let line = format!("KNOWN-FINDING: property={} {} [{}]", def.id, f.what, f.id);
        if !known_lines.contains(&line) {
            known_lines.push(line);
        }
        println!("  known finding {id} met {n} times in the search");
    }
    let mut reported = 0;
    let total_new = new_groups.len();
    if let Ok(only) = std::env::var("VERIF_ONLY_SIG") {
        // debugging aid: minimise only the violations whose signature contains this text
        new_groups.retain(|(_, v)| v.signature.contains(&only));
    }
    for (sc, v) in new_groups.into_iter().take(8) {
        println!(
            "violation found: {} clause={} signature={} :: {}",
            v.property, v.clause, v.signature, v.detail
        );
        let (msc, mv) = minimize::minimize(def, &sc, &v, std::time::Duration::from_secs(60));
        // after minimisation the signature may have become one of a known finding
        if let Some(f) = findings.findings.iter().find(|f| f.matches(&mv)) {
            let line = format!("KNOWN-FINDING: property={} {} [{}]", def.id, f.what, f.id);
            if !known_lines.contains(&line) {
                known_lines.push(line);
            }
            continue;
        }
        // The replay file must reproduce the violation in a fresh process. The one source of
        // nondeterminism that is not seamed (HashMap RandomState inside the code under test) can
        // make a violation depend on the process; so the minimised file gets three attempts, then
        // the unminimised scenario gets three. Only a file that reproduced is reported.
        let p = write_replay(&root, def.id, &msc, &mv, "min");
        let mut verified: Option<(std::path::PathBuf, usize, usize, &str)> = None;
        let mut last = None;
        'attempts: for (path, steps, what) in [(p.clone(), msc.script.len(), "minimised"), (write_replay(&root, def.id, &sc, &v, "orig"), sc.script.len(), "unminimised")] {
            let clause = if what == "minimised" { &mv.clause } else { &v.clause };
            for attempt in 1..=3 {
                let r = fresh_process_replay(def.id, &path);
                if matches!(&r, Some(found) if found.iter().any(|(c, _)| c == clause)) {
                    verified = Some((path.clone(), steps, attempt, what));
                    break 'attempts;
                }
                last = r;
            }
        }
        match verified {
            Some((path, steps, attempt, what)) => {
                println!(
                    "  {what} scenario of {steps} script steps; replay verified in a fresh process{}",
                    if attempt > 1 || what != "minimised" { format!(" (attempt {attempt}; the violation depends on something the seed does not fix, most likely HashMap order in the code under test)") } else { String::new() }
                );
                println!("  {} :: {}", mv.clause, mv.detail);
                violation_lines.push(format!("VIOLATION property={} replay={}", def.id, path.display()));
                exit_code = 1;
                reported += 1;
            }
            None => {
                if !super::core::ISOLATED.load(Ordering::Relaxed) {
                    // Seen with many simulations in one process, not in a process of its own: the
                    // code under test shares process-global state between simulations. Start over
                    // with every scenario in its own process; that run's verdict is the verdict.
                    println!(
                        "NOTE violation {} does not reproduce from its replay file in a fresh process ({last:?}): the simulations of this process influenced each other (process-global state in the code under test). Re-running with every scenario in a process of its own.",
                        mv.clause
                    );
                    let exe = std::env::current_exe().expect("current_exe");
                    let st = std::process::Command::new(exe)
                        .args(["check", def.id, "--tier", if tier == Tier::Quick { "quick" } else { "thorough" }, "--seed", &seed.to_string(), "--isolated"])
                        .status();
                    return st.ok().and_then(|s| s.code()).unwrap_or(2);
                }
                println!(
                    "HARNESS-ERROR: violation {} does not reproduce from its replay file {} in a fresh process ({last:?})",
                    mv.clause,
                    p.display()
                );
                if exit_code == 0 {
                    exit_code = 2;
                }
            }
        }
    }
    if total_new > reported && total_new > 8 {
        println!("  ({} further distinct violation signatures not minimised)", total_new - 8);
    }

    // 4. evidence
    let wall = t0.elapsed().as_secs_f64();
    let stuck: Vec<&&str> = agg.probes.iter().filter(|(_, v)| **v == 0).map(|(k, _)| k).collect();
    for p in &stuck {
        println!("WARNING: reach probe stuck at 0: {p}");
    }
    let fired: BTreeMap<&str, Value> = agg
        .fired_total
        .iter()
        .map(|(k, v)| (*k, json!({"firings": v, "runs_in_which_it_fired": agg.fired_runs[k]})))
        .collect();
    let ev = json!({
        "property_id": def.id,
        "tier": if tier == Tier::Quick { "quick" } else { "thorough" },
        "seed": seed,
        "level": def.level,
        "wall_s": wall,
        "violations": violation_lines.len(),
        "coverage": {
            "evaluations": agg.runs,
            "distinct_nontrivial": agg.nontrivial_sigs.len(),
            "rule": def.rule,
            "samples": agg.samples,
            "scenarios": agg.scenarios,
            "simulated_runs": agg.runs,
            "distinct_interleaving_signatures_all_runs": agg.all_sigs.len(),
            "distinct_server_states": agg.states.len(),
            "state_measure": "(alive tasks, iotx depth bucket, doctx depth bucket, stdout fill quarter, stdin backlog bucket) sampled after every scheduler step",
            "oracle_comparisons": agg.comparisons,
            "logical_ticks_covered": agg.ticks,
            "scheduler_steps": agg.steps,
            "events": agg.events,
            "bytes_client_to_server": agg.bytes_in,
            "bytes_server_to_client": agg.bytes_out,
            "simulated_runs_per_hour": if wall > 0.0 { (agg.runs as f64 / wall * 3600.0) as u64 } else { 0 },
            "seeds_per_hour": if wall > 0.0 { (agg.scenarios as f64 / wall * 3600.0) as u64 } else { 0 },
            "stopped_by_wall_cap": capped.load(Ordering::Relaxed),
            "isolated_one_process_per_scenario": isolated,
            "workers": workers,
            "faults_fired": fired,
            "reach_probes": agg.probes,
            "probes_stuck_at_zero": stuck,
            "schedule_policies": agg.policies,
            "channel_capacities": agg.caps,
            "simulated_worker_threads": agg.worker_threads,
            "process_endings": agg.endings,
            "other_property_notes": agg.notes,
            "foreign_layer_violations_ignored": foreign,
            "known_findings_replayed": replayed_findings,
            "known_findings_met_in_search": known_hits,
            "real_vs_stub": {
                "real": [
                    "lsp4spl: server.rs (all phases, dispatch, run), io.rs (LSCodec, responder), document.rs (broker, position conversion), features/*, error.rs — symlinked from /repo/lsp4spl/src",
                    "spl_frontend (path dependency on /repo/spl_frontend, feature verif)",
                    "tokio::sync::{mpsc,oneshot} (real implementation behind a pass-through interposer)",
                    "tokio_util::codec::{FramedRead,FramedWrite}, futures, httparse, serde_json, lsp-types"
                ],
                "stub": [
                    "tokio runtime: scheduler, spawn, JoinHandle (incl. abort), runtime shutdown (simtokio executor)",
                    "thread identity: the main task on the simulated main thread, every poll of another task on a seeded one of 1..4 simulated worker threads; `thread_local!` in lsp4spl/src is one value per simulated thread (spl_frontend's, and a `std::thread_local!` written with its path, are per OS thread = per run)",
                    "tokio::time (sleep, timeout, interval, Instant): simulated clock on logical ticks, unused by the pinned tree",
                    "thread stacks: 256 MiB worker threads, except the nesting ladder of C02 (child process, 2 MiB, the size of a tokio worker stack)",
                    "tokio::io::{Stdin,Stdout} and the OS pipes behind them",
                    "std::process::exit (exit seam)",
                    "the client (scripted actor with its own document model)",
                    "main.rs (#[tokio::main], clap, logger, capability table) is not executed; LanguageServer::setup is called directly"
                ]
            }
        },
        "assumptions": def.assumptions,
    });
    // runs against a scratch worktree (VERIF_REPO) must not overwrite the evidence of /repo
    let scratch = std::env::var("VERIF_REPO").map_or(false, |r| !r.is_empty() && r != "/repo");
    let evdir = if scratch { root.join("logs").join("evidence-scratch") } else { root.join("evidence") };
    let _ = std::fs::create_dir_all(&evdir);
    let evpath = evdir.join(format!("{}.json", def.id));
    if let Err(e) = std::fs::write(&evpath, serde_json::to_string_pretty(&ev).unwrap()) {
        eprintln!("HARNESS-ERROR: cannot write {}: {e}", evpath.display());
        return 2;
    }
    println!(
        "{} {}: {} scenarios, {} simulated runs, {} distinct non-trivial interleavings, {} states, {:.1}s{}",
        def.id,
        if tier == Tier::Quick { "quick" } else { "thorough" },
        agg.scenarios,
        agg.runs,
        agg.nontrivial_sigs.len(),
        agg.states.len(),
        wall,
        if capped.load(Ordering::Relaxed) { " (wall cap reached)" } else { "" }
    );
    for (n, c) in agg.notes.iter().take(12) {
        println!("NOTE ({c}x) {n}");
    }
    // the code under test used something the simulator does not model: no verdict
    if let Some((n, c)) = agg.notes.iter().find(|(n, _)| n.starts_with("harness-limitation")) {
        println!("HARNESS-ERROR: {n} ({c} runs)");
        if exit_code == 0 {
            exit_code = 2;
        }
    }
    for l in &known_lines {
        println!("{l}");
    }
    for l in &violation_lines {
        println!("{l}");
    }
    exit_code
}

fn write_replay(root: &Path, prop: &str, sc: &Scenario, v: &Violation, tag: &str) -> PathBuf {
    let dir = root.join("replays");
    let _ = std::fs::create_dir_all(&dir);
    let mut h: u64 = 1469598103934665603;
    for b in serde_json::to_string(sc).unwrap().bytes() {
        h = (h ^ b as u64).wrapping_mul(1099511628211);
    }
    let p = dir.join(format!("{prop}-{}-{tag}-{:08x}.json", sc.seed, h as u32));
    let mut val = serde_json::to_value(sc).unwrap();
    val["_violation"] = json!({"clause": v.clause, "signature": v.signature, "detail": v.detail});
    let _ = std::fs::write(&p, serde_json::to_string_pretty(&val).unwrap());
    p
}
