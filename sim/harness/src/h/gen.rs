//! Seeded workload generators: SPL documents (valid, broken, token soup, arbitrary Unicode) and
//! edits (structural, typing, arbitrary, overshooting). Plain data producers: the deciding is
//! done by the seeded search over scenarios and the oracles, not here.
use super::client::{apply_edit, offset_at, position_at};
use super::scenario::Edit;
use tokio::sim::Rng;

// ------------------------------------------------------------------------------------------
// G-valid: grammar-directed, (mostly) well-typed SPL
// ------------------------------------------------------------------------------------------

#[derive(Clone, Debug, PartialEq)]
enum Ty {
    Int,
    Array(u32, Box<Ty>),
}

#[derive(Clone)]
struct ProcSig {
    name: String,
    params: Vec<(bool, Ty)>, // (is_ref, type)
}

struct Layout {
    nl: &'static str,
    indent: String,
    compact: bool,
    comment_permille: u32,
}

struct ProgGen<'a> {
    rng: &'a mut Rng,
    types: Vec<(String, Ty)>,
    procs: Vec<ProcSig>,
    lay: Layout,
    out: String,
    names: u32,
}

const BUILTINS: [(&str, &[bool]); 6] = [
    ("printi", &[false]),
    ("printc", &[false]),
    ("readi", &[true]),
    ("readc", &[true]),
    ("exit", &[]),
    ("time", &[true]),
];

const NAME_POOL: [&str; 24] = [
    "i", "j", "k", "n", "x", "y", "a", "b", "tmp", "count", "index", "value", "sum", "acc", "m",
    "lo", "hi", "res", "flag", "buf", "vec", "mat", "p", "q",
];

impl<'a> ProgGen<'a> {
    fn fresh(&mut self, base: &str) -> String {
        self.names += 1;
        if self.rng.chance(15) {
            // names that collide with builtins and with each other
            return self.rng.pick(&["printi", "printc", "readi", "exit", "time", "int", "main", "dup"]).to_string();
        }
        if self.rng.chance(500) {
            format!("{base}{}", self.names)
        } else {
            format!("{}_{}", self.rng.pick(&NAME_POOL), self.names)
        }
    }

    fn sp(&mut self) -> &'static str {
        if self.lay.compact {
            ""
        } else if self.rng.chance(60) {
            "  "
        } else {
            " "
        }
    }

    fn nl(&mut self, depth: usize) {
        self.out.push_str(self.lay.nl);
        if self.rng.chance(self.lay.comment_permille) {
            for _ in 0..depth {
                self.out.push_str(&self.lay.indent.clone());
            }
            let c = *self.rng.pick(&["// note", "//", "// x := 1;", "// äöü €", "//// nested // x"]);
            self.out.push_str(c);
            self.out.push_str(self.lay.nl);
        }
        if self.rng.chance(50) {
            self.out.push_str(self.lay.nl);
        }
        for _ in 0..depth {
            self.out.push_str(&self.lay.indent.clone());
        }
    }

    fn type_expr(&mut self, ty: &Ty) -> String {
        // prefer a declared alias with that structure
        let aliases: Vec<String> = self
            .types
            .iter()
            .filter(|(_, t)| t == ty)
            .map(|(n, _)| n.clone())
            .collect();
        if !aliases.is_empty() && self.rng.chance(600) {
            return self.rng.pick(&aliases).clone();
        }
        match ty {
            Ty::Int => "int".to_string(),
            Ty::Array(n, inner) => {
                let inner = self.type_expr(inner);
                format!("array [{n}] of {inner}")
            }
        }
    }

    fn random_ty(&mut self, depth: u32) -> Ty {
        if depth == 0 || self.rng.chance(600) {
            Ty::Int
        } else {
            let n = *self.rng.pick(&[1u32, 2, 3, 5, 10, 16, 100]);
            Ty::Array(n, Box::new(self.random_ty(depth - 1)))
        }
    }

    fn int_lit(&mut self) -> String {
        match self.rng.below(10) {
            0 => format!("0x{:X}", self.rng.below(256)),
            1 => format!("0x{:x}", self.rng.below(70000)),
            2 => {
                let c = *self.rng.pick(&["'a'", "'Z'", "' '", "'\\n'", "'0'", "'''"]);
                c.to_string()
            }
            3 => "0".to_string(),
            _ => format!("{}", self.rng.below(1000)),
        }
    }

    /// an int-typed variable access built from the variables in scope
    fn int_var(&mut self, vars: &[(String, Ty)], depth: u32) -> Option<String> {
        if vars.is_empty() {
            return None;
        }
        let (name, ty) = self.rng.pick(vars).clone();
        let mut s = name;
        let mut t = ty;
        while let Ty::Array(_, inner) = t {
            let idx = if depth == 0 {
                self.int_lit()
            } else {
                self.expr(vars, depth - 1)
            };
            s = format!("{s}[{idx}]");
            t = *inner;
        }
        Some(s)
    }

    fn expr(&mut self, vars: &[(String, Ty)], depth: u32) -> String {
        if depth == 0 || self.rng.chance(350) {
            return match self.int_var(vars, 0) {
                Some(v) if self.rng.chance(600) => v,
                _ => self.int_lit(),
            };
        }
        match self.rng.below(8) {
            0 => format!("({})", self.expr(vars, depth - 1)),
            1 => format!("-{}", self.expr(vars, depth - 1)),
            _ => {
                let op = *self.rng.pick(&["+", "-", "*", "/"]);
                let a = self.expr(vars, depth - 1);
                let b = self.expr(vars, depth - 1);
                let s = self.sp();
                format!("{a}{s}{op}{s}{b}")
            }
        }
    }

    fn cond(&mut self, vars: &[(String, Ty)]) -> String {
        let op = *self.rng.pick(&["=", "#", "<", "<=", ">", ">="]);
        let a = self.expr(vars, 2);
        let b = self.expr(vars, 2);
        let s = self.sp();
        format!("{a}{s}{op}{s}{b}")
    }

    fn stmt(&mut self, vars: &[(String, Ty)], depth: u32, ind: usize) {
        let choice = if depth == 0 {
            self.rng.below(5)
        } else {
            self.rng.below(9)
        };
        match choice {
            0 | 1 | 2 => {
                if let Some(v) = self.int_var(vars, 2) {
                    let e = self.expr(vars, 3);
                    let s = self.sp();
                    self.out.push_str(&format!("{v}{s}:={s}{e};"));
                } else {
                    self.out.push(';');
                }
            }
            3 | 4 => {
                // call
                let user = !self.procs.is_empty() && self.rng.chance(600);
                if user {
                    let sig = self.rng.pick(&self.procs.clone()).clone();
                    let mut args = vec![];
                    for (is_ref, ty) in &sig.params {
                        if *is_ref || *ty != Ty::Int {
                            // needs a variable of exactly that type
                            let cands: Vec<String> = vars
                                .iter()
                                .filter(|(_, t)| t == ty)
                                .map(|(n, _)| n.clone())
                                .collect();
                            if let Some(c) = cands.first() {
                                let _ = c;
                                args.push(self.rng.pick(&cands).clone());
                            } else if *ty == Ty::Int {
                                args.push(self.int_var(vars, 1).unwrap_or_else(|| "0".into()));
                            } else {
                                args.push("0".into()); // ill-typed on purpose rarely
                            }
                        } else {
                            args.push(self.expr(vars, 2));
                        }
                    }
                    let s = self.sp();
                    self.out
                        .push_str(&format!("{}({});", sig.name, args.join(&format!(",{s}"))));
                } else {
                    let (name, params) = *self.rng.pick(&BUILTINS);
                    let mut args = vec![];
                    for is_ref in params {
                        if *is_ref {
                            args.push(self.int_var(vars, 1).unwrap_or_else(|| "0".into()));
                        } else {
                            args.push(self.expr(vars, 2));
                        }
                    }
                    self.out.push_str(&format!("{name}({});", args.join(", ")));
                }
            }
            5 => {
                let c = self.cond(vars);
                let s = self.sp();
                self.out.push_str(&format!("if{s}({c}){s}"));
                self.block(vars, depth - 1, ind);
                if self.rng.chance(500) {
                    let s = self.sp();
                    self.out.push_str(&format!("{s}else{s}"));
                    if self.rng.chance(300) {
                        self.stmt(vars, depth - 1, ind);
                    } else {
                        self.block(vars, depth - 1, ind);
                    }
                }
            }
            6 => {
                let c = self.cond(vars);
                let s = self.sp();
                self.out.push_str(&format!("while{s}({c}){s}"));
                self.block(vars, depth - 1, ind);
            }
            7 => self.block(vars, depth - 1, ind),
            _ => self.out.push(';'),
        }
    }

    fn block(&mut self, vars: &[(String, Ty)], depth: u32, ind: usize) {
        self.out.push('{');
        let n = self.rng.below(4);
        for _ in 0..n {
            self.nl(ind + 1);
            self.stmt(vars, depth, ind + 1);
        }
        self.nl(ind);
        self.out.push('}');
    }

    fn type_decl(&mut self) {
        let name = self.fresh("T");
        let ty = self.random_ty(3);
        let te = self.type_expr(&ty);
        let s = self.sp();
        self.out.push_str(&format!("type {name}{s}={s}{te};"));
        self.types.push((name, ty));
    }

    fn proc_sig(&mut self, main: bool) -> ProcSig {
        if main {
            return ProcSig {
                name: "main".into(),
                params: vec![],
            };
        }
        let name = self.fresh("proc");
        let n = self.rng.below(4);
        let mut params = vec![];
        for _ in 0..n {
            let ty = self.random_ty(2);
            let is_ref = ty != Ty::Int || self.rng.chance(300);
            params.push((is_ref, ty));
        }
        ProcSig { name, params }
    }

    fn proc_decl(&mut self, sig: &ProcSig) {
        let mut vars: Vec<(String, Ty)> = vec![];
        let mut ps = vec![];
        for (is_ref, ty) in &sig.params {
            let n = self.fresh("p");
            let te = self.type_expr(ty);
            ps.push(format!("{}{n}: {te}", if *is_ref { "ref " } else { "" }));
            vars.push((n, ty.clone()));
        }
        let s = self.sp();
        self.out
            .push_str(&format!("proc {}({}){s}{{", sig.name, ps.join(", ")));
        let nv = self.rng.below(4);
        for _ in 0..nv {
            let n = self.fresh("v");
            let ty = self.random_ty(2);
            let te = self.type_expr(&ty);
            self.nl(1);
            self.out.push_str(&format!("var {n}: {te};"));
            vars.push((n, ty));
        }
        let ns = self.rng.below(6);
        for _ in 0..ns {
            self.nl(1);
            self.stmt(&vars, 3, 1);
        }
        self.nl(0);
        self.out.push('}');
    }
}

/// A (mostly) well-typed SPL program of roughly `size` declarations.
pub fn valid_program(rng: &mut Rng, size: usize) -> String {
    let lay = Layout {
        nl: if rng.chance(150) { "\r\n" } else { "\n" },
        indent: rng.pick(&["  ", "    ", "\t", ""]).to_string(),
        compact: rng.chance(100),
        comment_permille: *rng.pick(&[0, 0, 60, 200]),
    };
    let mut g = ProgGen {
        rng,
        types: vec![],
        procs: vec![],
        lay,
        out: String::new(),
        names: 0,
    };
    // decide the declarations first so that procedures can be called before their declaration
    let n = size.max(1);
    let mut kinds = vec![];
    let main_at = g.rng.below(n);
    for i in 0..n {
        if i == main_at {
            kinds.push(2);
        } else if g.rng.chance(300) {
            kinds.push(0);
        } else {
            kinds.push(1);
        }
    }
    let sigs: Vec<Option<ProcSig>> = kinds
        .iter()
        .map(|k| match k {
            1 => Some(g.proc_sig(false)),
            2 => Some(g.proc_sig(true)),
            _ => None,
        })
        .collect();
    g.procs = sigs.iter().flatten().filter(|s| s.name != "main").cloned().collect();
    if g.rng.chance(300) {
        g.out.push_str("// generated program");
        g.out.push_str(g.lay.nl);
    }
    for (k, sig) in kinds.iter().zip(sigs.iter()) {
        match (k, sig) {
            (0, _) => g.type_decl(),
            (_, Some(sig)) => g.proc_decl(sig),
            _ => {}
        }
        g.nl(0);
    }
    g.out
}

// ------------------------------------------------------------------------------------------
// G-broken, G-soup, G-unicode
// ------------------------------------------------------------------------------------------

const SOUP: [&str; 64] = [
    "(", ")", "[", "]", "{", "}", "=", "#", "<", "<=", ">", ">=", ":=", ":", ",", ";", "+", "-",
    "*", "/", "if", "else", "while", "array", "of", "proc", "ref", "type", "var", "int", "main",
    "x", "y", "foo", "printi", "0", "1", "42", "0x", "0x1F", "0xZ", "99999999999", "'a'", "'",
    "'\\n'", "'ab", "//", "// c\n", "/", " ", "\n", "\r\n", "\t", "_", "a_b", "ifx", "type1", "ä",
    "€", "𝄞", "@", "\\", "\"", "$",
];

pub fn soup(rng: &mut Rng, tokens: usize) -> String {
    let mut s = String::new();
    for _ in 0..tokens {
        s.push_str(*rng.pick(&SOUP));
        if rng.chance(600) {
            s.push(' ');
        }
        if rng.chance(80) {
            s.push('\n');
        }
    }
    s
}

const UNI: [&str; 28] = [
    "a", "b", "Z", "0", " ", " ", "\n", "\n", "\r\n", "\r", "\t", "é", "ß", "Ω", "ж", "€", "→",
    "漢", "𝄞", "😀", "𐍈", "x", ";", "'", "/", "//", "{", "}",
];

pub fn unicode_text(rng: &mut Rng, items: usize) -> String {
    let mut s = String::new();
    // now and then the things editors and tools do to files: a byte-order mark in front, a form
    // feed / vertical tab / NBSP / line separator inside (none of them an LSP line terminator)
    if rng.chance(80) {
        s.push('\u{feff}');
    }
    for _ in 0..items {
        if rng.chance(15) {
            s.push(*rng.pick(&['\u{c}', '\u{b}', '\u{a0}', '\u{2028}', '\u{85}', '\u{feff}']));
        }
        s.push_str(*rng.pick(&UNI));
    }
    s
}

/// A valid program damaged by 1..=5 token-level mutations, or with a nasty tail.
pub fn broken_program(rng: &mut Rng, size: usize) -> String {
    let mut t = valid_program(rng, size);
    let n = rng.range(1, 5);
    for _ in 0..n {
        let (r, repl) = arbitrary_edit(rng, &t, true);
        t.replace_range(r, &repl);
    }
    // a selection deleted: a run of 2..4 consecutive tokens (e.g. the `)` `;` that end a call)
    if rng.chance(300) {
        let toks = crude_tokens(&t);
        if toks.len() > 4 {
            let i = rng.below(toks.len() - 1);
            let k = (i + rng.range(1, 3)).min(toks.len() - 1);
            t.replace_range(toks[i].start..toks[k].end, "");
        }
    }
    // a program that is still being written: everything behind some token is missing, with or
    // without the closing brace an editor inserts by itself
    if rng.chance(200) {
        let toks = crude_tokens(&t);
        if toks.len() > 3 {
            let i = rng.range(1, toks.len() - 1);
            t.truncate(toks[i].end);
            if rng.chance(400) {
                t.push_str("\n}\n");
            }
        }
    }
    match rng.below(8) {
        0 => t.push_str("'"),
        1 => t.push_str("// no newline"),
        2 => t.push_str("0x"),
        3 => t.push_str("99999999999999999999"),
        4 => t.push_str("proc p("),
        _ => {}
    }
    t
}

#[derive(Clone, Copy, Debug, PartialEq)]
pub enum DocKind {
    Valid,
    Broken,
    Soup,
    Unicode,
}

pub fn document(rng: &mut Rng, kind: DocKind) -> String {
    // one document in 200 is big - a few thousand lines, beyond 64 KiB: a threshold in the code
    // ("large documents take the other path") must have documents on both sides of it
    if rng.chance(5) {
        return match kind {
            DocKind::Valid => {
                if rng.chance(250) {
                    // one very long line (columns beyond 65 535), with something wrong near its end
                    let n = *rng.pick(&[2500usize, 7400]);
                    let mut t = String::from("proc main() {\n  var i: int; ");
                    for k in 0..n {
                        t.push_str(&format!("i := {}; ", k % 97));
                    }
                    t.push_str("i := 𝄞 ; j := 1;\n}\n");
                    return t;
                }
                let n = *rng.pick(&[40usize, 120, 300]);
                valid_program(rng, n)
            }
            DocKind::Broken => {
                let n = *rng.pick(&[30usize, 100]);
                broken_program(rng, n)
            }
            DocKind::Soup => {
                let n = *rng.pick(&[700usize, 5000, 14000]);
                soup(rng, n)
            }
            DocKind::Unicode => {
                let n = *rng.pick(&[1000usize, 8000, 20000]);
                unicode_text(rng, n)
            }
        };
    }
    match kind {
        DocKind::Valid => {
            let n = rng.range(1, 6);
            valid_program(rng, n)
        }
        DocKind::Broken => {
            let n = rng.range(1, 5);
            broken_program(rng, n)
        }
        DocKind::Soup => {
            let n = rng.range(0, 60);
            soup(rng, n)
        }
        DocKind::Unicode => {
            let n = rng.range(0, 80);
            unicode_text(rng, n)
        }
    }
}

// ------------------------------------------------------------------------------------------
// Edits: (byte range in the client's text, replacement)
// ------------------------------------------------------------------------------------------

/// Snap an offset down to a boundary that an LSP position can address (a char boundary that is not
/// between `\r` and `\n`).
pub fn snap(text: &str, mut off: usize) -> usize {
    off = off.min(text.len());
    while !text.is_char_boundary(off) {
        off -= 1;
    }
    if off > 0 && off < text.len() && text.as_bytes()[off - 1] == b'\r' && text.as_bytes()[off] == b'\n' {
        off -= 1;
    }
    off
}

const FRAGMENTS: [&str; 60] = [
    "", "", "", " ", "\n", "x", "1", ";", ":=", ":", "=", "<", "<=", ">", "(", ")", "{", "}", "[",
    "]", ",", "+", "-", "*", "/", "//", "// c\n", "'", "'a'", "'\\n'", "0", "0x", "0x1f", "if",
    "else", "while", "proc", "ref ", "type", "var", "array", "of", "int", "i", "foo", "main", "_",
    "9", "ä", "€", "𝄞", "\r\n", "\t", "  ", "x := 1;", "var v: int;", "printi(1);", "proc q() {}",
    "type t = int;", "if (1 = 1) {}",
];

/// Replace any byte range (on addressable boundaries) by any fragment.
pub fn arbitrary_edit(rng: &mut Rng, text: &str, small: bool) -> (std::ops::Range<usize>, String) {
    let a = snap(text, rng.below(text.len() + 1));
    let max_len = if small { 4 } else { 30 };
    let len = match rng.below(4) {
        0 => 0,
        1 => 1,
        _ => rng.below(max_len + 1),
    };
    let mut b = snap(text, (a + len).min(text.len()));
    if b < a {
        b = a;
    }
    let mut repl = String::new();
    let n = match rng.below(6) {
        0 => 0,
        1 | 2 | 3 => 1,
        _ => rng.range(1, 4),
    };
    for _ in 0..n {
        repl.push_str(*rng.pick(&FRAGMENTS));
    }
    if a == b && repl.is_empty() {
        repl.push_str(*rng.pick(&["x", " ", "\n", "1", ";"]));
    }
    (a..b, repl)
}

/// Word / token boundaries of an SPL-ish text (a crude tokenizer of the generator's own).
fn crude_tokens(text: &str) -> Vec<std::ops::Range<usize>> {
    let b = text.as_bytes();
    let mut out = vec![];
    let mut i = 0;
    while i < b.len() {
        let c = b[i];
        if c.is_ascii_whitespace() {
            i += 1;
        } else if c.is_ascii_alphanumeric() || c == b'_' {
            let s = i;
            while i < b.len() && (b[i].is_ascii_alphanumeric() || b[i] == b'_') {
                i += 1;
            }
            out.push(s..i);
        } else if c == b'/' && i + 1 < b.len() && b[i + 1] == b'/' {
            let s = i;
            while i < b.len() && b[i] != b'\n' {
                i += 1;
            }
            if i < b.len() {
                i += 1;
            }
            out.push(s..i);
        } else if c < 0x80 {
            let s = i;
            i += 1;
            if i < b.len() && (b[i] == b'=') && (c == b':' || c == b'<' || c == b'>') {
                i += 1;
            }
            out.push(s..i);
        } else {
            let s = i;
            i += 1;
            while i < b.len() && !text.is_char_boundary(i) {
                i += 1;
            }
            out.push(s..i);
        }
    }
    out
}

fn line_ranges(text: &str) -> Vec<std::ops::Range<usize>> {
    let mut out = vec![];
    let mut s = 0;
    for (i, c) in text.char_indices() {
        if c == '\n' {
            out.push(s..i + 1);
            s = i + 1;
        }
    }
    if s < text.len() {
        out.push(s..text.len());
    }
    out
}

/// Copy and paste of a whole declaration (`proc ... { ... }` or `type ...;`), as it is, without its
/// `var` lines, with an emptied parameter list or reduced to its first statements - pasted at the
/// end of the text or right behind the original: two declarations of the same name, the later one
/// possibly much shorter and using names the earlier one declares.
pub fn copy_declaration(rng: &mut Rng, text: &str) -> Option<(std::ops::Range<usize>, String)> {
    let toks = crude_tokens(text);
    let mut decls: Vec<std::ops::Range<usize>> = vec![];
    let mut i = 0;
    while i < toks.len() {
        let w = &text[toks[i].clone()];
        if w == "proc" {
            // to the brace that closes the body
            let mut depth = 0i32;
            let mut j = i;
            let mut end = None;
            while j < toks.len() {
                match &text[toks[j].clone()] {
                    "{" => depth += 1,
                    "}" => {
                        depth -= 1;
                        if depth <= 0 {
                            end = Some(toks[j].end);
                            break;
                        }
                    }
                    _ => {}
                }
                j += 1;
            }
            match end {
                Some(e) => {
                    decls.push(toks[i].start..e);
                    i = j + 1;
                    continue;
                }
                None => break,
            }
        } else if w == "type" {
            if let Some(j) = (i..toks.len()).find(|&j| &text[toks[j].clone()] == ";") {
                decls.push(toks[i].start..toks[j].end);
                i = j + 1;
                continue;
            }
        }
        i += 1;
    }
    // (a declaration of many kilobytes is not copied: a session must not double a big document
    // with every other step)
    decls.retain(|d| d.len() <= 4096);
    if decls.is_empty() {
        return None;
    }
    let d = rng.pick(&decls).clone();
    let mut copy = text[d.clone()].to_string();
    match rng.below(5) {
        0 => {}
        1 => {
            // without the local variable declarations
            copy = copy.lines().filter(|l| !l.trim_start().starts_with("var ")).collect::<Vec<_>>().join("\n");
        }
        2 => {
            // parameters gone
            if let (Some(a), Some(b)) = (copy.find('('), copy.find(')')) {
                if a < b {
                    copy.replace_range(a + 1..b, "");
                }
            }
        }
        3 => {
            // parameters and variables gone, only the first statements left
            if let (Some(a), Some(b)) = (copy.find('('), copy.find(')')) {
                if a < b {
                    copy.replace_range(a + 1..b, "");
                }
            }
            let lines: Vec<&str> = copy.lines().filter(|l| !l.trim_start().starts_with("var ")).collect();
            let keep = rng.range(1, 3).min(lines.len());
            copy = format!("{}\n}}", lines[..keep].join("\n"));
        }
        _ => {
            // header and an empty body
            if let Some(a) = copy.find('{') {
                copy.truncate(a + 1);
                copy.push_str("\n}");
            }
        }
    }
    let at = if rng.chance(700) { text.len() } else { d.end };
    Some((at..at, format!("\n{copy}\n")))
}

/// Syntax-preserving (or at least syntax-aware) edits.
pub fn structural_edit(rng: &mut Rng, text: &str) -> (std::ops::Range<usize>, String) {
    let toks = crude_tokens(text);
    let lines = line_ranges(text);
    if toks.is_empty() {
        return (text.len()..text.len(), "proc main() {}\n".into());
    }
    let is_ident = |r: &std::ops::Range<usize>| {
        let w = &text[r.clone()];
        w.chars().next().map_or(false, |c| c.is_ascii_alphabetic() || c == '_')
            && ![
                "if", "else", "while", "array", "of", "proc", "ref", "type", "var",
            ]
            .contains(&w)
    };
    for _ in 0..8 {
        match rng.below(16) {
            14 | 15 => {
                if let Some(e) = copy_declaration(rng, text) {
                    return e;
                }
            }
            0 | 1 => {
                // rename an identifier occurrence
                let ids: Vec<_> = toks.iter().filter(|r| is_ident(r)).collect();
                if let Some(r) = ids.get(rng.below(ids.len().max(1))) {
                    // half of the renames produce a name that already occurs in the document
                    // (redeclarations, a procedure named like another one, a use that now means
                    // something else)
                    if rng.chance(500) {
                        let other = ids[rng.below(ids.len())].clone();
                        return ((*r).clone(), text[other].to_string());
                    }
                    let new = *rng.pick(&["a", "renamed", "x1", "main", "i", "int", "T2", "q_", "printi", "time"]);
                    return ((*r).clone(), new.to_string());
                }
            }
            2 => {
                // change a number
                let nums: Vec<_> = toks
                    .iter()
                    .filter(|r| text.as_bytes()[r.start].is_ascii_digit())
                    .collect();
                if !nums.is_empty() {
                    let r = (*rng.pick(&nums)).clone();
                    let new = *rng.pick(&["0", "7", "123", "0x10", "'c'", "99999999999"]);
                    return (r, new.to_string());
                }
            }
            3 | 4 => {
                // insert a statement / declaration at the start of a line
                if !lines.is_empty() {
                    let l = rng.pick(&lines).clone();
                    let st = *rng.pick(&[
                        "x := 1;\n",
                        "printi(2);\n",
                        "var nv: int;\n",
                        "while (1 < 2) { }\n",
                        "if (a = b) { a := b; } else { b := a; }\n",
                        "{ }\n",
                        ";\n",
                        "proc helper(ref r: int) { r := 0; }\n",
                        "type fresh = array [3] of int;\n",
                        "// a comment line\n",
                        "\n",
                    ]);
                    return (l.start..l.start, st.to_string());
                }
            }
            5 => {
                // delete a whole line
                if !lines.is_empty() {
                    let l = rng.pick(&lines).clone();
                    return (snap(text, l.start)..l.end, String::new());
                }
            }
            6 => {
                // insert / remove `ref `
                let refs: Vec<_> = toks.iter().filter(|r| &text[(*r).clone()] == "ref").collect();
                if !refs.is_empty() && rng.chance(500) {
                    let r = (*rng.pick(&refs)).clone();
                    let end = if text[r.end..].starts_with(' ') { r.end + 1 } else { r.end };
                    return (r.start..end, String::new());
                }
                // before a parameter name: an identifier followed by ':' after '(' or ','
                let mut cands = vec![];
                for w in toks.windows(3) {
                    let p = &text[w[0].clone()];
                    if (p == "(" || p == ",") && is_ident(&w[1]) && &text[w[2].clone()] == ":" {
                        cands.push(w[1].start);
                    }
                }
                if !cands.is_empty() {
                    let at = *rng.pick(&cands);
                    return (at..at, "ref ".into());
                }
            }
            7 => {
                // insert a comment after a token (inside a node)
                let r = rng.pick(&toks).clone();
                return (r.end..r.end, " // inner\n".into());
            }
            8 => {
                // remove a comment
                let cs: Vec<_> = toks.iter().filter(|r| text[(*r).clone()].starts_with("//")).collect();
                if !cs.is_empty() {
                    return ((*rng.pick(&cs)).clone(), String::new());
                }
            }
            9 => {
                // whitespace change between two tokens
                let r = rng.pick(&toks).clone();
                let ws = *rng.pick(&[" ", "  ", "\n", "\t", "\n\n  "]);
                return (r.end..r.end, ws.to_string());
            }
            10 => {
                // insert / delete an argument or parameter
                let commas: Vec<_> = toks.iter().filter(|r| &text[(*r).clone()] == ",").collect();
                if !commas.is_empty() && rng.chance(500) {
                    let c = (*rng.pick(&commas)).clone();
                    return (c.end..c.end, " 1,".into());
                }
                let parens: Vec<_> = toks.iter().filter(|r| &text[(*r).clone()] == "(").collect();
                if !parens.is_empty() {
                    let c = (*rng.pick(&parens)).clone();
                    return (c.end..c.end, (*rng.pick(&["z: int, ", "0, ", "ref w: int, "])).to_string());
                }
            }
            11 => {
                // delete a token
                let r = rng.pick(&toks).clone();
                return (r, String::new());
            }
            12 => {
                // duplicate a line
                if !lines.is_empty() {
                    let l = rng.pick(&lines).clone();
                    let mut s = text[l.clone()].to_string();
                    if !s.ends_with('\n') {
                        s.push('\n');
                    }
                    return (l.start..l.start, s);
                }
            }
            _ => {
                // append a declaration at the end
                let d = *rng.pick(&[
                    "\nproc extra() { }\n",
                    "\ntype tail = int;\n",
                    "\nproc main() { }\n",
                ]);
                return (text.len()..text.len(), d.to_string());
            }
        }
    }
    arbitrary_edit(rng, text, true)
}

/// A typing burst: the fragment is produced as a sequence of single-character insertions (with
/// the occasional backspace), i.e. every intermediate state is half-typed.
pub fn typing_edits(rng: &mut Rng, text: &str) -> Vec<(std::ops::Range<usize>, String)> {
    let lines = line_ranges(text);
    let at = if lines.is_empty() || rng.chance(300) {
        snap(text, rng.below(text.len() + 1))
    } else {
        let l = rng.pick(&lines).clone();
        if rng.chance(500) {
            l.start
        } else {
            snap(text, l.end.saturating_sub(1).max(l.start))
        }
    };
    let frag = *rng.pick(&[
        "x := x + 1;",
        "proc f(a: int) {\n}\n",
        "type t = array [5] of int;",
        "if (i < 10) {\n",
        "} else {\n",
        "while (k # 0) k := k - 1;",
        "printc('a');",
        "var q: array [2] of int;",
        "// todo\n",
        "'",
        "0x1F",
        "f(1, 2, 3);",
        "a[i] := b[j][k];",
        "printi(count + 12);",
        "readi(value);",
        "printc(10);",
        "exit();",
    ]);
    let mut out = vec![];
    let mut pos = at;
    for ch in frag.chars() {
        if rng.chance(60) && pos > at {
            // backspace one char (fragments are ASCII)
            out.push((pos - 1..pos, String::new()));
            pos -= 1;
        }
        out.push((pos..pos, ch.to_string()));
        pos += ch.len_utf8();
    }
    out
}

pub fn to_lsp_edit(text: &str, range: std::ops::Range<usize>, repl: String) -> Edit {
    let (sl, sc) = position_at(text, range.start);
    let (el, ec) = position_at(text, range.end);
    Edit {
        range: Some([sl, sc, el, ec]),
        text: repl,
    }
}

/// Edit with positions that overshoot: columns past the line end, lines past the last line.
/// A small column on `line`, moved down to a UTF-16 boundary that is a character boundary
/// (positions inside a surrogate pair are ill-formed and must not be generated).
fn boundary_col(text: &str, line: u32, col: u32) -> u32 {
    let off = offset_at(text, line, col);
    let (l, c) = position_at(text, off);
    if l == line {
        c
    } else {
        0
    }
}

pub fn overshoot_edit(rng: &mut Rng, text: &str) -> Edit {
    let n_lines = position_at(text, text.len()).0 + 1;
    let line = rng.below(n_lines as usize + 2) as u32;
    let col_big = 1000 + rng.below(1000) as u32;
    let repl = rng.pick(&["", "x", "\n", "ä", "𝄞", " y "]).to_string();
    match rng.below(4) {
        0 => Edit {
            // insertion "at end of line"
            range: Some([line, col_big, line, col_big]),
            text: repl,
        },
        1 => {
            // from a real column to past the end of the same line
            let c = boundary_col(text, line, rng.below(6) as u32);
            Edit {
                range: Some([line, c, line, col_big]),
                text: repl,
            }
        }
        2 => Edit {
            // line past the end
            range: Some([n_lines + 5, 0, n_lines + 7, 3]),
            text: repl,
        },
        _ => {
            // from past-EOL on one line to a column on the next
            let c = boundary_col(text, line + 1, rng.below(4) as u32);
            Edit {
                range: Some([line, col_big, line + 1, c]),
                text: repl,
            }
        }
    }
}

/// Applies an edit to the client's text via the replica rules (so generators can chain edits).
pub fn apply(text: &mut String, e: &Edit) {
    apply_edit(text, e);
}

/// All interesting request positions for a text: token starts / insides / ends, whitespace, line
/// ends, overshooting columns and lines, (0,0), end of text.
pub fn request_position(rng: &mut Rng, text: &str) -> (u32, u32) {
    let toks = crude_tokens(text);
    match rng.below(10) {
        0 => (0, 0),
        1 => position_at(text, text.len()),
        2 => {
            let (l, _) = position_at(text, snap(text, rng.below(text.len() + 1)));
            (l, 500 + rng.below(100) as u32)
        }
        3 => {
            let (l, _) = position_at(text, text.len());
            (l + 1 + rng.below(5) as u32, rng.below(10) as u32)
        }
        4 => position_at(text, snap(text, rng.below(text.len() + 1))),
        _ => {
            if toks.is_empty() {
                return (0, 0);
            }
            let r = rng.pick(&toks).clone();
            let off = match rng.below(3) {
                0 => r.start,
                1 => snap(text, (r.start + r.end) / 2),
                _ => r.end,
            };
            position_at(text, snap(text, off))
        }
    }
}

/// The position a client asks about while typing: at the cursor or up to three characters left
/// of it, mostly with the methods an editor fires by itself at that moment.
pub fn cursor_request(rng: &mut Rng, text: &str, cursor: usize) -> (&'static str, u32, u32) {
    let m = if rng.chance(600) {
        *rng.pick(&["textDocument/completion", "textDocument/signatureHelp", "textDocument/hover", "textDocument/signatureHelp"])
    } else {
        *rng.pick(&crate::h::scenario::METHODS)
    };
    let back = *rng.pick(&[0usize, 0, 1, 1, 2, 3]);
    let off = snap(text, cursor.min(text.len()).saturating_sub(back));
    let (l, c) = position_at(text, off);
    (m, l, c)
}

#[allow(dead_code)]
pub fn offset_of(text: &str, l: u32, c: u32) -> usize {
    offset_at(text, l, c)
}

/// An edit that touches the first or second token behind a statement-ish boundary (`;`, `}`, `)`,
/// `{`) or drops a comment there: the region a reused node looks ahead into.
pub fn boundary_edit(rng: &mut Rng, text: &str) -> (std::ops::Range<usize>, String) {
    let toks = crude_tokens(text);
    let bounds: Vec<usize> = toks
        .iter()
        .enumerate()
        .filter(|(_, r)| matches!(&text[(*r).clone()], ";" | "}" | ")" | "{" | "]"))
        .map(|(i, _)| i)
        .collect();
    if bounds.is_empty() {
        return arbitrary_edit(rng, text, true);
    }
    let b = *rng.pick(&bounds);
    // the first or second token behind the boundary that is not a comment (token parsers skip
    // comments, so these are the tokens a reused node looks ahead at)
    let is_comment = |r: &std::ops::Range<usize>| text[r.clone()].starts_with("//");
    let real: Vec<usize> = (b + 1..toks.len()).filter(|i| !is_comment(&toks[*i])).take(2).collect();
    let first = real.first().copied();
    let k = if real.is_empty() { b + 1 } else { *rng.pick(&real) };
    let repl = *rng.pick(&[
        "", "", ";", ":=", "(", ")", "{", "}", "if", "else", "while", "var", "proc", "type", "x", "1", ":", "[", ",",
        "// c\n", "ref",
    ]);
    match toks.get(k) {
        Some(r) => match rng.below(7) {
            0 => (r.clone(), repl.to_string()),                  // replace the token
            1 => (r.start..r.start, format!("{repl} ")),          // insert before it
            2 => (r.clone(), String::new()),                      // delete it
            3 if r.len() >= 2 && text.is_char_boundary(r.end - 1) => (r.end - 1..r.end, String::new()), // `:=` -> `:`, `<=` -> `<`, shorter name
            4 => match first {
                // a comment between the first and the second token looked ahead at
                Some(f) => (toks[f].end..toks[f].end, " // between\n".to_string()),
                None => (r.clone(), String::new()),
            },
            5 => (r.end..r.end, "=".to_string()),                 // `:` -> `:=`, `<` -> `<=`
            _ => (toks[b].end..toks[b].end, " // look ahead\n".to_string()), // a comment right behind the boundary
        },
        None => (text.len()..text.len(), repl.to_string()),
    }
}

/// A short sequence of edits around one node end: optionally trivia (a comment, a line break)
/// between the node and the first or second token behind it, then a change of one of these two
/// tokens (delete, replace, cut or extend by one character, insert in front), optionally undone
/// again. Each range refers to the text after the preceding edits of the sequence.
pub fn lookahead_probe(rng: &mut Rng, text: &str) -> Vec<(std::ops::Range<usize>, String)> {
    let mut out = vec![];
    let mut cur = text.to_string();
    let real = real_tokens(&cur);
    if real.len() < 3 {
        return vec![arbitrary_edit(rng, text, true)];
    }
    // the node end: mostly a closing token, sometimes any token
    let closers: Vec<usize> = (0..real.len() - 1)
        .filter(|i| matches!(&cur[real[*i].clone()], ";" | "}" | ")" | "{" | "]"))
        .collect();
    let b = if !closers.is_empty() && rng.chance(700) { *rng.pick(&closers) } else { rng.below(real.len() - 1) };
    let which = if b + 2 < real.len() && rng.chance(650) { b + 2 } else { b + 1 };
    if rng.chance(600) {
        let after = if which == b + 2 && rng.chance(600) { b + 1 } else { b };
        let piece = *rng.pick(&[" // c\n", "\n", " // ä\n", "\n// line\n// line\n", " "]);
        let at = real[after].end;
        out.push((at..at, piece.to_string()));
        cur.insert_str(at, piece);
    }
    let real = real_tokens(&cur);
    let Some(r) = real.get(which).cloned() else { return out };
    let repl = *rng.pick(&[";", ":=", "(", ")", "{", "}", "if", "else", "while", "var", "proc", "type", "x", "1", ":", "[", ",", "ref", "="]);
    let old = cur[r.clone()].to_string();
    let (range, new) = match rng.below(6) {
        0 => (r.clone(), String::new()),
        1 => (r.clone(), repl.to_string()),
        2 if r.len() >= 2 && cur.is_char_boundary(r.end - 1) => (r.end - 1..r.end, String::new()),
        3 => (r.end..r.end, "=".to_string()),
        4 => (r.start..r.start, format!("{repl} ")),
        _ => (r.clone(), String::new()),
    };
    let undo = (range.start..range.start + new.len(), cur[range.clone()].to_string());
    cur.replace_range(range.clone(), &new);
    out.push((range, new));
    let _ = old;
    if rng.chance(400) {
        out.push(undo);
    }
    out
}

/// Error recovery ends where the next statement or declaration starts, which the parser decides
/// by looking at up to two tokens (`name :=`, `name (`, `proc`, `type`, `var`, ...). This sequence
/// puts junk in front of such a start, optionally trivia between its two tokens, then changes
/// the second (or first) of them, optionally undoes that and removes the junk again.
pub fn recovery_probe(rng: &mut Rng, text: &str) -> Vec<(std::ops::Range<usize>, String)> {
    let mut cur = text.to_string();
    let real = real_tokens(&cur);
    let is_name = |t: &str| t.chars().next().map_or(false, |c| c.is_ascii_alphabetic() || c == '_');
    let starts: Vec<usize> = (1..real.len().saturating_sub(1))
        .filter(|&i| {
            let (p, t, n) = (&cur[real[i - 1].clone()], &cur[real[i].clone()], &cur[real[i + 1].clone()]);
            matches!(p, ";" | "{" | "}" | ")") && is_name(t) && (matches!(n, ":=" | "(" | "[") || matches!(t, "proc" | "type" | "var" | "if" | "while"))
        })
        .collect();
    if starts.is_empty() {
        return lookahead_probe(rng, text);
    }
    let i = *rng.pick(&starts);
    let mut out = vec![];
    let mut push = |cur: &mut String, r: std::ops::Range<usize>, t: String| {
        cur.replace_range(r.clone(), &t);
        out.push((r, t));
    };
    // 1. junk in front of the start
    let junk = *rng.pick(&[") ) ", "] ", "5 ", ", ", "= ", "else ", "of ", ") ", "x y ", "( ", "{ ) "]);
    let at = real[i].start;
    push(&mut cur, at..at, junk.to_string());
    // 2. trivia between the two tokens of the start
    let real2 = real_tokens(&cur);
    let j = real2.iter().position(|r| r.start == at + junk.len()).unwrap_or(0);
    if rng.chance(500) && j < real2.len() {
        let piece = *rng.pick(&[" // c\n", "\n", " // ä\n", "\n// line\n// line\n"]);
        let e = real2[j].end;
        push(&mut cur, e..e, piece.to_string());
    }
    // 3. change the second (mostly) or first token of the start
    let real3 = real_tokens(&cur);
    let k = if rng.chance(750) { j + 1 } else { j };
    if let Some(r) = real3.get(k).cloned() {
        let old = cur[r.clone()].to_string();
        let (range, new): (std::ops::Range<usize>, String) = match rng.below(5) {
            0 => (r.clone(), String::new()),
            1 if r.len() >= 2 && cur.is_char_boundary(r.end - 1) => (r.end - 1..r.end, String::new()),
            2 => (r.clone(), rng.pick(&["(", ":=", ":", "[", ";", "=", "x"]).to_string()),
            3 => (r.start..r.start, rng.pick(&["x ", "; ", ") "]).to_string()),
            _ => (r.clone(), String::new()),
        };
        let undo = (range.start..range.start + new.len(), cur[range.clone()].to_string());
        push(&mut cur, range, new);
        let _ = old;
        if rng.chance(500) {
            push(&mut cur, undo.0, undo.1);
        }
    }
    // 4. the junk goes away again
    if rng.chance(400) && cur.get(at..at + junk.len()) == Some(junk) {
        push(&mut cur, at..at + junk.len(), String::new());
    }
    out
}

// ------------------------------------------------------------------------------------------
// Neighbourhoods of regression scenarios: the same edit on a text that differs in trivia
// ------------------------------------------------------------------------------------------

fn real_tokens(text: &str) -> Vec<std::ops::Range<usize>> {
    crude_tokens(text).into_iter().filter(|r| !text[r.clone()].starts_with("//")).collect()
}

pub const TINY: [&str; 22] = [
    "", " ", "\n", "x", "1", "//", "// c", "// c\n", "'", "'a'", "0x", ";", "proc", "  \n  ", "\r\n", "ä", "𝄞", "/", "a b", "type", "\t", "i := 1;",
];

/// Edits at the boundaries of the text: everything deleted, everything replaced, at offset 0, a
/// prefix or a suffix deleted, at the very end, and the empty change.
pub fn boundary_case_edit(rng: &mut Rng, text: &str) -> (std::ops::Range<usize>, String) {
    let n = text.len();
    let k = snap(text, rng.below(n + 1));
    let tiny = rng.pick(&TINY).to_string();
    match rng.below(9) {
        0 => (0..n, String::new()),
        1 => (0..n, tiny),
        2 => (0..0, tiny),
        3 => (0..k, String::new()),
        4 => (k..n, String::new()),
        5 => (n..n, tiny),
        6 => (0..snap(text, 1.min(n)), String::new()),
        7 => (k..k, String::new()),
        _ => (k..n, tiny),
    }
}

pub fn tokens_of(text: &str) -> Vec<std::ops::Range<usize>> {
    crude_tokens(text)
}

/// Inserts trivia (comment lines, line breaks, blanks) into the token gaps: every gap gets a
/// piece with a per-call probability, so that combinations of gaps occur.
pub fn perturb_trivia(rng: &mut Rng, text: &str) -> String {
    let p = *rng.pick(&[80u32, 250, 500]);
    let toks = crude_tokens(text);
    let mut out = String::with_capacity(text.len() * 2);
    let mut last = 0;
    for r in &toks {
        out.push_str(&text[last..r.end]);
        last = r.end;
        // never directly behind a comment token without its line end (it would join the comment)
        let comment_open = text[r.clone()].starts_with("//") && !text[r.clone()].ends_with('\n');
        if !comment_open && rng.chance(p) {
            out.push_str(*rng.pick(&[" // c\n", "\n", " ", "\n// line\n", " // ä€\n", "\r\n", "\t", " // x := 1;\n", " // c\n // d\n"]));
        }
    }
    out.push_str(&text[last..]);
    out
}

/// Maps an offset of `o` to the corresponding offset of `q`, where `q` has the same sequence of
/// non-comment tokens as `o` (other trivia in the gaps). Falls back to clamping otherwise.
pub fn map_offset(o: &str, q: &str, x: usize) -> usize {
    let (no, nq) = (real_tokens(o), real_tokens(q));
    if no.len() != nq.len() || no.iter().zip(nq.iter()).any(|(a, b)| o[a.clone()] != q[b.clone()]) {
        return snap(q, x.min(q.len()));
    }
    match no.iter().rposition(|r| r.start <= x) {
        None => snap(q, x.min(nq.first().map_or(q.len(), |r| r.start))),
        Some(k) => {
            if x <= no[k].end {
                nq[k].start + (x - no[k].start)
            } else {
                // in the gap behind token k: the same distance into q's gap, at most to its end
                let gap_end = nq.get(k + 1).map_or(q.len(), |r| r.start);
                snap(q, (nq[k].end + (x - no[k].end)).min(gap_end))
            }
        }
    }
}

/// Writing a program from nothing: the text is typed at the end in pieces of 1..3 characters.
pub fn type_from_scratch(rng: &mut Rng, program: &str, max_steps: usize) -> Vec<String> {
    let chars: Vec<char> = program.chars().collect();
    let mut out = vec![];
    let mut i = 0;
    while i < chars.len() && out.len() < max_steps {
        let n = *rng.pick(&[1usize, 1, 1, 2, 3]);
        let piece: String = chars[i..(i + n).min(chars.len())].iter().collect();
        out.push(piece);
        i += n;
    }
    out
}

/// The single replacement an editor sends for an undo/redo or a revert: the smallest range of
/// `from` whose replacement yields `to` (common prefix and suffix kept, on character boundaries).
pub fn diff_edit(from: &str, to: &str) -> (std::ops::Range<usize>, String) {
    let (a, b) = (from.as_bytes(), to.as_bytes());
    let mut p = 0;
    while p < a.len() && p < b.len() && a[p] == b[p] {
        p += 1;
    }
    while !from.is_char_boundary(p) || !to.is_char_boundary(p) {
        p -= 1;
    }
    let mut q = 0;
    while q < a.len() - p && q < b.len() - p && a[a.len() - 1 - q] == b[b.len() - 1 - q] {
        q += 1;
    }
    while !from.is_char_boundary(a.len() - q) || !to.is_char_boundary(b.len() - q) {
        q -= 1;
    }
    (p..a.len() - q, to[p..b.len() - q].to_string())
}

/// Steps in the life of a document that carry state across more than one notification: closed and
/// opened again (same, earlier or new text), emptied and filled again, undone to an earlier text
/// and redone. `hist` holds earlier texts of this document. Returns the number of notifications.
pub fn lifecycle_steps(rng: &mut Rng, s: &mut crate::h::session::Session, uri: &str, hist: &[String]) -> usize {
    let t = s.text(uri).cloned().unwrap_or_default();
    match rng.below(5) {
        0 => {
            s.close(uri);
            let nt = match rng.below(3) {
                0 => t.clone(),
                1 if !hist.is_empty() => rng.pick(hist).clone(),
                _ => document(rng, DocKind::Valid),
            };
            s.open(uri, &nt);
            1
        }
        1 => {
            let e = to_lsp_edit(&t, 0..t.len(), String::new());
            s.change(uri, vec![e]);
            if rng.chance(400) {
                let m = *rng.pick(&["textDocument/hover", "textDocument/completion", "textDocument/foldingRange", "textDocument/semanticTokens/full", "textDocument/formatting"]);
                s.request(m, uri, 0, 0);
            }
            let nt = match rng.below(3) {
                0 => t.clone(),
                1 if !hist.is_empty() => rng.pick(hist).clone(),
                _ => document(rng, DocKind::Valid),
            };
            s.change(uri, vec![to_lsp_edit("", 0..0, nt)]);
            2
        }
        _ => {
            if hist.is_empty() {
                return 0;
            }
            // undo to one of the last few texts, step by step or at once; perhaps redo
            let back = rng.range(1, 4).min(hist.len());
            let chain: Vec<String> = hist[hist.len() - back..].iter().rev().cloned().collect();
            let mut cur = t.clone();
            let mut n = 0;
            if rng.chance(500) {
                for old in &chain {
                    if *old != cur {
                        let (r, repl) = diff_edit(&cur, old);
                        s.change(uri, vec![to_lsp_edit(&cur, r, repl)]);
                        cur = old.clone();
                        n += 1;
                    }
                }
            } else if let Some(old) = chain.last() {
                if *old != cur {
                    let (r, repl) = diff_edit(&cur, old);
                    s.change(uri, vec![to_lsp_edit(&cur, r, repl)]);
                    cur = old.clone();
                    n += 1;
                }
            }
            if rng.chance(500) && cur != t {
                let (r, repl) = diff_edit(&cur, &t);
                s.change(uri, vec![to_lsp_edit(&cur, r, repl)]);
                n += 1;
            }
            n
        }
    }
}
