//! A scenario is the complete, explicit description of one simulated run. It is produced by a
//! generator from `VERIF_SEED`, written to disk as JSON when it is worth keeping, and executing it is
//! a pure function of the scenario and the code under test (the replay file *is* the scenario).
use serde::{Deserialize, Serialize};

#[derive(Clone, Debug, Serialize, Deserialize, PartialEq)]
pub struct Scenario {
    pub property: String,
    /// generator family / label (informational)
    pub label: String,
    pub seed: u64,
    pub knobs: Knobs,
    pub schedule: Schedule,
    pub script: Vec<Step>,
    pub segmentation: Segmentation,
    #[serde(default)]
    pub faults: Vec<Fault>,
    /// close stdin after the last script byte has been written (the normal end of a session
    /// without `exit`); `false` leaves the stream open (only sensible when the script ends in exit)
    #[serde(default = "yes")]
    pub close_at_end: bool,
}

fn yes() -> bool {
    true
}

#[derive(Clone, Debug, Serialize, Deserialize, PartialEq)]
pub struct Knobs {
    /// capacities substituted for the two `mpsc::channel(32)` (iotx, doctx)
    pub chan_caps: [usize; 2],
    pub stdout_cap: usize,
    /// 0 = unlimited
    pub read_cap: usize,
    pub read_cap_random: bool,
    pub yield_permille: u32,
    pub short_write_permille: u32,
    /// bytes CLIENT-RX takes per step (0 = everything available)
    pub rx_chunk: usize,
    /// > 0: the whole run is executed in a child process on a thread with a stack of this many
    /// KiB (tokio's worker threads, on which the document broker analyses, have 2 MiB): running out
    /// of stack kills the process
    #[serde(default, skip_serializing_if = "is_zero_usize")]
    pub stack_kib: usize,
    /// worker threads of the simulated runtime (0 = 1): every poll of a spawned task runs on a
    /// seeded one of them, the main task on the main thread; `thread_local!` state of the code
    /// under test is per simulated thread
    #[serde(default, skip_serializing_if = "is_zero_usize")]
    pub workers: usize,
}

fn is_zero_u8(b: &u8) -> bool {
    *b == 0
}

fn is_zero_usize(b: &usize) -> bool {
    *b == 0
}

impl Knobs {
    pub fn shipped() -> Self {
        Self {
            chan_caps: [32, 32],
            stdout_cap: 65536,
            read_cap: 0,
            read_cap_random: false,
            yield_permille: 0,
            short_write_permille: 0,
            rx_chunk: 0,
            stack_kib: 0,
            workers: 0,
        }
    }
}

#[derive(Clone, Debug, Serialize, Deserialize, PartialEq)]
pub struct Schedule {
    pub policy: Policy,
    pub seed: u64,
}

#[derive(Clone, Debug, Serialize, Deserialize, PartialEq)]
#[serde(tag = "kind", rename_all = "snake_case")]
pub enum Policy {
    /// run-queue order, what a current-thread runtime does
    Fifo,
    Uniform,
    /// keep running the same actor with probability p‰
    Sticky { permille: u32 },
    /// PCT-like: random fixed priorities, `changes` seeded priority-change points within `horizon`
    /// steps
    Pct { changes: u32, horizon: u32 },
}

/// How the client's byte stream is cut into writes.
#[derive(Clone, Debug, Serialize, Deserialize, PartialEq)]
#[serde(tag = "kind", rename_all = "snake_case")]
pub enum Segmentation {
    /// one write per frame (the reference delivery)
    Frames,
    /// fixed-size writes of k bytes, not aligned to frames within one barrier-free stretch
    Fixed { k: usize },
    /// explicit cut offsets into the whole session byte stream (sorted; frame ends that carry a
    /// `wait` barrier are always cuts in addition)
    Cuts { at: Vec<usize> },
    /// everything between two barriers in one write
    Coalesced,
}

#[derive(Clone, Debug, Serialize, Deserialize, PartialEq)]
#[serde(tag = "kind", rename_all = "snake_case")]
pub enum Fault {
    /// the client closes stdin after exactly `at_byte` bytes of the session stream
    Eof { at_byte: usize },
    /// the client's write end breaks after exactly `at_byte` bytes: once the server has consumed
    /// them, its next read fails with an I/O error (instead of reporting end of input)
    ReadError { at_byte: usize },
    /// the client closes its read end once `after_rx_bytes` bytes have been read from stdout
    Epipe { after_rx_bytes: usize },
    /// CLIENT-RX stops reading for `ticks` ticks, starting when segment `from_segment` has been
    /// written
    StallRx { from_segment: usize, ticks: u64 },
    /// segment `segment` becomes available only `ticks` ticks after its predecessor was written
    Delay { segment: usize, ticks: u64 },
}

#[derive(Clone, Debug, Serialize, Deserialize, PartialEq)]
pub struct Step {
    pub op: ClientOp,
    /// closed-loop barrier: do not send this message before every request sent so far has been
    /// answered
    #[serde(default, skip_serializing_if = "is_false")]
    pub wait: bool,
    /// header block of the frame: 0 = `Content-Length` only, 1 = `Content-Length` then
    /// `Content-Type`, 2 = `Content-Type` then `Content-Length` (all three are legal LSP base
    /// protocol; the decoder has room for exactly these two headers)
    #[serde(default, skip_serializing_if = "is_zero")]
    pub hdr: u8,
    /// the request id goes over the wire as a JSON string (`"id": "7"`), which JSON-RPC / LSP allow
    /// (`integer | string`) and some clients do
    #[serde(default, skip_serializing_if = "is_false")]
    pub sid: bool,
}

fn is_zero(b: &u8) -> bool {
    *b == 0
}

fn is_false(b: &bool) -> bool {
    !*b
}

impl Step {
    pub fn new(op: ClientOp) -> Self {
        Self { op, wait: false, hdr: 0, sid: false }
    }
    pub fn waiting(op: ClientOp) -> Self {
        Self { op, wait: true, hdr: 0, sid: false }
    }
}

#[derive(Clone, Debug, Serialize, Deserialize, PartialEq)]
pub struct Edit {
    /// `[start line, start character, end line, end character]`, `None` = full replacement
    pub range: Option<[u32; 4]>,
    pub text: String,
}

#[derive(Clone, Debug, Serialize, Deserialize, PartialEq)]
#[serde(tag = "op", rename_all = "snake_case")]
pub enum ClientOp {
    Initialize {
        id: i32,
        diag: bool,
        /// `general.positionEncodings` offered (LSP 3.17): 0 = member absent, 1 = `["utf-16"]`,
        /// 2 = `["utf-8","utf-16"]`, 3 = `["utf-16","utf-8"]`. The client then speaks what the
        /// server picks (`capabilities.positionEncoding`, UTF-16 when absent).
        #[serde(default, skip_serializing_if = "is_zero_u8")]
        enc: u8,
    },
    Initialized,
    Open {
        uri: String,
        text: String,
    },
    Change {
        uri: String,
        edits: Vec<Edit>,
    },
    Close {
        uri: String,
    },
    /// one of the supported feature requests; `method` is the LSP method name
    Request {
        id: i32,
        method: String,
        uri: String,
        line: u32,
        character: u32,
    },
    /// `$/verif/text`
    TextProbe {
        id: i32,
        uri: String,
    },
    UnknownRequest {
        id: i32,
        method: String,
    },
    UnknownNotification {
        method: String,
        /// params of the notification (`{}` when absent); e.g. `{"id": 5}` for `$/cancelRequest`
        #[serde(default, skip_serializing_if = "Option::is_none")]
        params: Option<serde_json::Value>,
    },
    Shutdown {
        id: i32,
    },
    Exit,
}

impl ClientOp {
    pub fn request_id(&self) -> Option<i32> {
        match self {
            ClientOp::Initialize { id, .. }
            | ClientOp::Request { id, .. }
            | ClientOp::TextProbe { id, .. }
            | ClientOp::UnknownRequest { id, .. }
            | ClientOp::Shutdown { id } => Some(*id),
            _ => None,
        }
    }

    pub fn short(&self) -> String {
        match self {
            ClientOp::Initialize { id, diag, enc } => format!("initialize#{id}{}{}", if *diag { "+diag" } else { "" }, if *enc > 0 { format!("+enc{enc}") } else { String::new() }),
            ClientOp::Initialized => "initialized".into(),
            ClientOp::Open { uri, text } => format!("open({uri},{}B)", text.len()),
            ClientOp::Change { uri, edits } => format!("change({uri},{} edits)", edits.len()),
            ClientOp::Close { uri } => format!("close({uri})"),
            ClientOp::Request { id, method, line, character, .. } => {
                format!("{}#{id}@{line}:{character}", method.trim_start_matches("textDocument/"))
            }
            ClientOp::TextProbe { id, uri } => format!("text#{id}({uri})"),
            ClientOp::UnknownRequest { id, method } => format!("unknownreq#{id}({method})"),
            ClientOp::UnknownNotification { method, .. } => format!("unknownnote({method})"),
            ClientOp::Shutdown { id } => format!("shutdown#{id}"),
            ClientOp::Exit => "exit".into(),
        }
    }
}

pub const METHODS: [&str; 13] = [
    "textDocument/declaration",
    "textDocument/definition",
    "textDocument/implementation",
    "textDocument/typeDefinition",
    "textDocument/references",
    "textDocument/hover",
    "textDocument/rename",
    "textDocument/prepareRename",
    "textDocument/completion",
    "textDocument/foldingRange",
    "textDocument/semanticTokens/full",
    "textDocument/signatureHelp",
    "textDocument/formatting",
];

impl Scenario {
    pub fn summary(&self) -> String {
        let ops: Vec<String> = self.script.iter().map(|s| {
            let mut t = s.op.short();
            if s.wait {
                t.insert(0, '|');
            }
            t
        }).collect();
        let mut s = ops.join(" ");
        if s.len() > 400 {
            let mut cut = 400;
            while !s.is_char_boundary(cut) {
                cut -= 1;
            }
            s.truncate(cut);
            s.push('…');
        }
        format!(
            "[{}] caps={:?} out={} rd={}{} y={} sw={} sched={:?} seg={} faults={:?} :: {}",
            self.label,
            self.knobs.chan_caps,
            self.knobs.stdout_cap,
            self.knobs.read_cap,
            if self.knobs.read_cap_random { "r" } else { "" },
            self.knobs.yield_permille,
            self.knobs.short_write_permille,
            self.schedule.policy,
            match &self.segmentation {
                Segmentation::Frames => "frames".to_string(),
                Segmentation::Fixed { k } => format!("fixed{k}"),
                Segmentation::Cuts { at } => format!("cuts{}", at.len()),
                Segmentation::Coalesced => "coalesced".to_string(),
            },
            self.faults,
            s
        )
    }
}
