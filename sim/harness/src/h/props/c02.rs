//! C02 — the server never crashes or goes silent, whatever the document or request.
//!
//! Whole sessions against the whole server: documents from all generators, edit histories from
//! all families, requests of all 13 methods at positions on, inside, behind and far outside every
//! token, for open, closed and never opened documents — under chunking, stalls, small channel
//! capacities and seeded schedules. Which task a panic happens in decides what the client sees,
//! so the oracle is evaluated on the recorded frame history: process alive, exactly one answer
//! per request, graceful end.
use crate::h::core::*;
use crate::h::gen::{self, DocKind};
use crate::h::runner::{self, RunOptions};
use crate::h::scenario::*;
use crate::h::session::Session;
use spl_frontend::ErrorContainer;
use tokio::sim::{PanicReport, ProcessEnd, Rng};

pub const ID: &str = "C02";

pub fn normalise(msg: &str) -> String {
    // numbers and addresses vary from input to input; the site does not
    let mut out = String::new();
    let mut last_hash = false;
    for c in msg.chars().take(80) {
        if c.is_ascii_digit() {
            if !last_hash {
                out.push('#');
            }
            last_hash = true;
        } else {
            out.push(c);
            last_hash = false;
        }
    }
    out
}

pub fn site(p: &PanicReport) -> String {
    // innermost frame of the code under test + the message with numbers normalised
    let f = p.frames.first().cloned().unwrap_or_else(|| format!("{}:{}", p.file, p.line));
    format!("{} :: {}", f, normalise(&p.message))
}

fn pick_doc_kind(rng: &mut Rng) -> DocKind {
    *rng.pick(&[
        DocKind::Valid,
        DocKind::Valid,
        DocKind::Valid,
        DocKind::Broken,
        DocKind::Broken,
        DocKind::Soup,
        DocKind::Unicode,
    ])
}

pub fn generate(seed: u64, idx: u64) -> Scenario {
    let mut rng = Rng::derive(seed.wrapping_mul(0x9E37_79B9).wrapping_add(idx), "c02");
    let mut s = Session::new();
    if rng.chance(200) {
        let (first, stride) = pick_id_scheme(&mut rng);
        s.id_scheme(first, stride);
    }
    s.handshake(rng.chance(850));
    let ndocs = rng.range(1, 2);
    let uris: Vec<String> = (0..ndocs).map(fresh_uri).collect();
    for u in &uris {
        let k = pick_doc_kind(&mut rng);
        let t = gen::document(&mut rng, k);
        s.open(u, &t);
    }
    if rng.chance(35) {
        // a user browsing through a directory: many documents opened, looked at and closed again,
        // some of them revisited (a table or cache sized for a handful of documents must have
        // sessions on both sides of its size)
        let k = *rng.pick(&[6usize, 12, 17, 18, 19, 34, 40]);
        let mut seen: Vec<String> = vec![];
        for i in 0..k {
            let u = format!("file:///w/dir/f{i}.spl");
            let kind = pick_doc_kind(&mut rng);
            let t = gen::document(&mut rng, kind);
            s.open(&u, &t);
            if rng.chance(400) {
                let m = *rng.pick(&METHODS);
                let (l, c) = gen::request_position(&mut rng, &t);
                s.request(m, &u, l, c);
            }
            s.close(&u);
            seen.push(u);
            if rng.chance(250) {
                let v = rng.pick(&seen).clone();
                let kind = pick_doc_kind(&mut rng);
                let t = gen::document(&mut rng, kind);
                s.open(&v, &t);
                let m = *rng.pick(&METHODS);
                let (l, c) = gen::request_position(&mut rng, &t);
                s.request(m, &v, l, c);
                if rng.chance(800) {
                    s.close(&v);
                }
            }
        }
    }
    let mut n = rng.range(1, 25);
    let mut typing: Vec<(String, Edit)> = vec![];
    if rng.chance(120) {
        // a program written from nothing; requests fired at half-typed states
        let uri = uris[0].clone();
        s.close(&uri);
        s.open(&uri, "");
        let size = rng.range(1, 3);
        let program = gen::valid_program(&mut rng, size);
        let mut cur = String::new();
        for piece in gen::type_from_scratch(&mut rng, &program, 250) {
            let e = gen::to_lsp_edit(&cur, cur.len()..cur.len(), piece);
            gen::apply(&mut cur, &e);
            s.change(&uri, vec![e]);
            if rng.chance(250) {
                // what an editor asks at the cursor, or an arbitrary request at an arbitrary place
                for _ in 0..rng.range(1, 3) {
                    if rng.chance(700) {
                        let (m, l, c) = gen::cursor_request(&mut rng, &cur, cur.len());
                        s.request(m, &uri, l, c);
                    } else {
                        let m = *rng.pick(&METHODS);
                        let (l, c) = gen::request_position(&mut rng, &cur);
                        s.request(m, &uri, l, c);
                    }
                }
            }
        }
        n = rng.below(4);
    }
    for _ in 0..n {
        let uri = if rng.chance(30) { "file:///w/never-opened.spl".to_string() } else { rng.pick(&uris).clone() };
        let text = s.text(&uri).cloned();
        match (text, rng.below(20)) {
            (None, 0..=4) => {
                let k = pick_doc_kind(&mut rng);
                let t = gen::document(&mut rng, k);
                s.open(&uri, &t);
            }
            (None, 5 | 6) => {
                // notifications for a document the server does not know: ignored, never fatal
                if rng.chance(600) {
                    s.change(&uri, vec![Edit { range: Some([0, 0, 0, rng.below(4) as u32]), text: "x".into() }]);
                } else {
                    s.close(&uri);
                }
            }
            (None, _) => {
                let m = *rng.pick(&METHODS);
                s.request(m, &uri, rng.below(5) as u32, rng.below(20) as u32);
            }
            (Some(text), 0..=8) => {
                let mut cur = text.clone();
                let k = batch_size(&mut rng, &[1usize, 1, 1, 1, 2, 3, 5, 0]); // 0: a version bump without content changes
                let mut edits = vec![];
                for _ in 0..k {
                    let e = match rng.below(20) {
                        0..=6 => {
                            let (r, repl) = gen::structural_edit(&mut rng, &cur);
                            let a = gen::snap(&cur, r.start);
                            let b = gen::snap(&cur, r.end).max(a);
                            gen::to_lsp_edit(&cur, a..b, repl)
                        }
                        7..=15 => {
                            let small = rng.chance(700);
                            let (r, repl) = gen::arbitrary_edit(&mut rng, &cur, small);
                            gen::to_lsp_edit(&cur, r, repl)
                        }
                        16 | 17 => gen::overshoot_edit(&mut rng, &cur),
                        _ => Edit {
                            range: None,
                            text: if rng.chance(250) {
                                // the same text again (a client re-synchronising)
                                cur.clone()
                            } else {
                                let k = pick_doc_kind(&mut rng);
                                gen::document(&mut rng, k)
                            },
                        },
                    };
                    gen::apply(&mut cur, &e);
                    edits.push(e);
                }
                s.change(&uri, edits);
            }
            (Some(text), 9 | 10) => {
                // a typing burst: one notification per keystroke
                let mut cur = text.clone();
                for (r, repl) in gen::typing_edits(&mut rng, &text) {
                    let a = gen::snap(&cur, r.start.min(cur.len()));
                    let b = gen::snap(&cur, r.end.min(cur.len())).max(a);
                    let repl_len = repl.len();
                    let e = gen::to_lsp_edit(&cur, a..b, repl);
                    gen::apply(&mut cur, &e);
                    typing.push((uri.clone(), e.clone()));
                    s.change(&uri, vec![e]);
                    if rng.chance(250) {
                        if rng.chance(700) {
                            let (m, l, c) = gen::cursor_request(&mut rng, &cur, a + repl_len);
                            s.request(m, &uri, l, c);
                        } else {
                            let m = *rng.pick(&METHODS);
                            let (l, c) = gen::request_position(&mut rng, &cur);
                            s.request(m, &uri, l, c);
                        }
                    }
                }
            }
            (Some(_), 11) => {
                if rng.chance(500) {
                    s.close(&uri);
                } else {
                    s.client_chatter(rng.below(5));
                }
            }
            (Some(text), _) => {
                let m = *rng.pick(&METHODS);
                let (l, c) = gen::request_position(&mut rng, &text);
                s.request(m, &uri, l, c);
            }
        }
    }
    // at the end: every method once on every open document
    for u in &uris {
        if let Some(text) = s.text(u).cloned() {
            if rng.chance(500) {
                for m in METHODS {
                    let (l, c) = gen::request_position(&mut rng, &text);
                    s.request(m, u, l, c);
                }
            }
        }
    }
    s.shutdown();
    s.exit();
    let p = *rng.pick(&[0u32, 0, 100, 500]);
    for st in s.steps.iter_mut().skip(2) {
        if rng.chance(p) {
            st.wait = true;
        }
    }
    if rng.chance(150) {
        // clients that send the optional Content-Type header (before or after Content-Length)
        for st in s.steps.iter_mut() {
            if rng.chance(600) {
                st.hdr = 1 + rng.below(3) as u8;
            }
        }
    }
    let mut sc = Scenario {
        property: ID.into(),
        label: "session".into(),
        seed,
        knobs: pick_knobs(&mut rng, false),
        schedule: Schedule {
            policy: pick_policy(&mut rng, 1000),
            seed: rng.next_u64(),
        },
        script: s.steps,
        segmentation: match rng.below(4) {
            0 => Segmentation::Frames,
            1 => Segmentation::Coalesced,
            _ => Segmentation::Fixed { k: *rng.pick(&[13usize, 64, 500, 4000]) },
        },
        faults: vec![],
        close_at_end: true,
    };
    if sc.knobs.read_cap > 0 && sc.knobs.read_cap < 7 {
        sc.knobs.read_cap = 21;
    }
    if rng.chance(300) {
        sc.faults.push(Fault::StallRx {
            from_segment: rng.below(20),
            ticks: *rng.pick(&[100u64, 5_000, 50_000]),
        });
    }
    sc
}

/// Deep nesting on the stack the deployed server has: the document broker (which lexes, parses and
/// analyses) is a spawned task and runs on a tokio worker thread with a 2 MiB stack. One session
/// per nesting shape: open the document, type one more level, ask the recursive handlers.
pub const LADDER: u64 = 10;
pub const LADDER_DEPTH: usize = 48;

pub fn ladder(seed: u64, idx: u64) -> Scenario {
    let d = LADDER_DEPTH;
    let (label, text, more): (&str, String, (&str, &str)) = match idx {
        0 => ("parentheses", format!("proc main() {{\n  var i: int;\n  i := {}1{};\n}}\n", "(".repeat(d), ")".repeat(d)), ("(", ")")),
        1 => ("if", format!("proc main() {{\n{}{}\n}}\n", "if (1 = 1) {\n".repeat(d), "}\n".repeat(d)), ("if (2 = 2) {", "}")),
        2 => ("while", format!("proc main() {{\n{}{}\n}}\n", "while (1 < 2) {\n".repeat(d), "}\n".repeat(d)), ("while (3 > 2) {", "}")),
        3 => ("if-else", format!("proc main() {{\n{};{}\n}}\n", "if (1 = 1) ; else ".repeat(d), ""), ("", "")),
        4 => ("array type", format!("type t = {} int;\nproc main() {{\n  var v: t;\n}}\n", "array [2] of ".repeat(d)), ("", "")),
        5 => ("index", format!("type t = {} int;\nproc main() {{\n  var a: t;\n  a{} := 1;\n}}\n", "array [2] of ".repeat(d), "[0]".repeat(d)), ("", "")),
        6 => ("unary minus", format!("proc main() {{\n  var i: int;\n  i := {}1;\n}}\n", "-".repeat(d)), ("", "")),
        7 => ("unterminated parentheses", format!("proc main() {{\n  var i: int;\n  i := {}", "(".repeat(d)), ("", "")),
        8 => ("unterminated blocks", format!("proc main() {{\n{}", "if (1 = 1) {\n while (1 = 1) {\n".repeat(d / 2)), ("", "")),
        _ => ("operands", format!("proc main() {{\n  var i: int;\n  i := {}1{};\n}}\n", "(1 + 2 * ".repeat(d), ")".repeat(d)), ("", "")),
    };
    let mut s = Session::new();
    s.handshake(true);
    let uri = fresh_uri(0);
    s.open(&uri, &text);
    if !more.0.is_empty() {
        // one more level typed in the middle: the incremental path on the same stack
        let at = text.find(&more.0[..1]).unwrap_or(0);
        let e = gen::to_lsp_edit(&text, at..at, more.0.to_string());
        let mut cur = text.clone();
        gen::apply(&mut cur, &e);
        s.change(&uri, vec![e]);
        let at2 = cur.rfind(more.1).unwrap_or(cur.len());
        let e2 = gen::to_lsp_edit(&cur, at2..at2, more.1.to_string());
        s.change(&uri, vec![e2]);
    }
    let t = s.text(&uri).cloned().unwrap_or_default();
    let (l, c) = crate::h::client::position_at(&t, t.len() / 2);
    for m in METHODS {
        s.request(m, &uri, l, c);
    }
    s.shutdown();
    s.exit();
    Scenario {
        property: ID.into(),
        label: format!("nesting ladder: {label} x {d} on a 2 MiB stack"),
        seed,
        knobs: Knobs {
            stack_kib: 2048,
            ..Knobs::shipped()
        },
        schedule: Schedule {
            policy: Policy::Fifo,
            seed: 0,
        },
        script: s.steps,
        segmentation: Segmentation::Frames,
        faults: vec![],
        close_at_end: true,
    }
}

/// Systematic position sweep: a small program covering every construct, cut off behind each of
/// its tokens (what a user has on the screen while writing it), with and without the closing brace
/// an editor adds by itself; all 13 requests at every column of the last two lines, at (0,0) and
/// outside the text.
pub const SWEEP_PROGRAM: &str = "type vec = array [3] of int;\n// sum of a vector\nproc sum(ref v: vec, count: int, ref out: int) {\n  var i: int;\n  out := 0;\n  while (i < count) {\n    out := out + v[i];\n    i := i + 1;\n  }\n}\nproc main() {\n  var arr: vec;\n  var total: int;\n  if (total # 0) printi(total); else sum(arr, 3, total);\n  printc('\\n');\n  readi(arr[0x1]);\n}\n";

pub fn sweep_docs() -> Vec<String> {
    let toks = gen::tokens_of(SWEEP_PROGRAM);
    let mut docs = vec![SWEEP_PROGRAM.to_string()];
    for r in &toks {
        let cut = &SWEEP_PROGRAM[..r.end];
        docs.push(cut.to_string());
        docs.push(format!("{cut}\n}}\n"));
        // the token itself half typed
        if r.len() >= 3 {
            docs.push(SWEEP_PROGRAM[..r.start + r.len() / 2].to_string());
        }
    }
    docs
}

pub fn position_sweep(seed: u64, idx: u64) -> Option<Scenario> {
    let docs = sweep_docs();
    let text = docs.get(idx as usize)?.clone();
    let mut s = Session::new();
    s.handshake(idx % 2 == 0);
    let uri = fresh_uri(0);
    s.open(&uri, &text);
    let lines: Vec<&str> = text.split('\n').collect();
    let n = lines.len();
    let mut positions: Vec<(u32, u32)> = vec![(0, 0), (n as u32 + 1, 0), (n as u32, 7)];
    for l in n.saturating_sub(3)..n {
        for c in 0..=lines[l].len() + 1 {
            positions.push((l as u32, c as u32));
        }
    }
    for (l, c) in positions {
        for m in METHODS {
            if matches!(m, "textDocument/foldingRange" | "textDocument/semanticTokens/full") && c > 0 {
                continue; // no position parameter
            }
            s.request(m, &uri, l, c);
        }
    }
    s.shutdown();
    s.exit();
    Some(Scenario {
        property: ID.into(),
        label: format!("position sweep: program cut at byte {} of {}", text.len(), SWEEP_PROGRAM.len()),
        seed,
        knobs: Knobs::shipped(),
        schedule: Schedule {
            policy: Policy::Fifo,
            seed: idx,
        },
        script: s.steps,
        segmentation: Segmentation::Coalesced,
        faults: vec![],
        close_at_end: true,
    })
}

pub fn judge(sc: &Scenario) -> Judgement {
    if sc.knobs.stack_kib > 0 && std::env::var("VERIF_IN_CHILD").is_err() {
        // on the stack size the deployed server has: in a child process, whose death (stack
        // overflow aborts the process exactly as it would the server) is the violation
        let mut j = crate::h::driver::judge_in_child(ID, sc);
        j.probe("session run on a 2 MiB stack in a child process", 1);
        return j;
    }
    let mut j = Judgement::default();
    // domain: well-formed sessions (handshake first, shutdown + exit last)
    let n = sc.script.len();
    if n < 4
        || !matches!(sc.script[0].op, ClientOp::Initialize { .. })
        || !matches!(sc.script[1].op, ClientOp::Initialized)
        || !matches!(sc.script[n - 2].op, ClientOp::Shutdown { .. })
        || !matches!(sc.script[n - 1].op, ClientOp::Exit)
        || sc.script[2..n - 2]
            .iter()
            .any(|s| matches!(s.op, ClientOp::Initialize { .. } | ClientOp::Initialized | ClientOp::Shutdown { .. } | ClientOp::Exit))
    {
        return j;
    }
    let rec = runner::run(
        sc,
        &RunOptions {
            observe_docs: true,
            ..Default::default()
        },
    );
    j.runs.push(RunStats::of(&rec));
    let reqs: Vec<i64> = sc.script.iter().filter_map(|s| s.op.request_id().map(|i| i as i64)).collect();
    j.probe("request for a never opened / closed document", sc.script.iter().filter(|s| matches!(&s.op, ClientOp::Request { uri, .. } if uri.contains("never"))).count() as u64);
    j.probe("typing burst (one change per keystroke)", (sc.script.iter().filter(|s| matches!(&s.op, ClientOp::Change { edits, .. } if edits.len() == 1 && edits[0].text.chars().count() == 1)).count() > 5) as u64);
    j.probe("document states analysed", rec.doc_obs.len() as u64);
    j.probe("document state with diagnostics", rec.doc_obs.iter().filter(|o| tokio::sim::catch(|| !o.doc.errors().is_empty()).unwrap_or(false)).count() as u64);
    j.probe("sender blocked on full iotx", rec.summary.counters.send_blocked[0]);
    j.comparisons += reqs.len() as u64 + rec.doc_obs.len() as u64;

    if let Some(e) = &rec.framing_error {
        j.notes.push(format!("other-property=C19 emitted stream is not well-framed: {e}"));
        return j;
    }
    // a panic of tokio itself because the code under test reached for a part of the runtime the
    // simulator does not provide (I/O driver, blocking pool, ...) says nothing about the server
    let unmodelled = |p: &PanicReport| {
        p.message.contains("there is no reactor running")
            || p.message.contains("must be called from the context of a Tokio")
            || p.message.contains("no reactor running")
    };
    if rec.task_panics.iter().any(|(_, p)| unmodelled(p)) || matches!(&rec.end, Some(ProcessEnd::MainPanicked(p)) if unmodelled(p)) {
        j.notes.push("harness-limitation: the code under test uses a tokio facility the simulator does not model (no reactor / blocking pool in the simulation)".into());
        return j;
    }
    // no actor panics
    for (task, p) in &rec.task_panics {
        let name = match task {
            1 => "responder",
            2 => "document broker",
            _ => "task",
        };
        j.violate(
            ID,
            "panic",
            format!("panic {}", site(p)),
            format!("the {name} task panicked: {} ({}:{}); innermost frames: {:?}", p.message.chars().take(300).collect::<String>(), p.file, p.line, p.frames),
        );
    }
    if let Some(ProcessEnd::MainPanicked(p)) = &rec.end {
        j.violate(
            ID,
            "panic",
            format!("panic {}", site(p)),
            format!(
                "a request handler panicked, the process dies with status 101 and every queued answer is lost: {} ({}:{}); innermost frames: {:?}",
                p.message.chars().take(300).collect::<String>(),
                p.file,
                p.line,
                p.frames
            ),
        );
    }
    if !j.violations.is_empty() {
        return j;
    }
    // every state the session reached can be analysed in-process as well
    for o in &rec.doc_obs {
        if let Err(p) = tokio::sim::catch(|| o.doc.errors()) {
            j.violate(ID, "panic", format!("panic {}", site(&p)), format!("AnalyzedSource::errors() panics on a state the session reached: {}", p.message));
            return j;
        }
    }
    if let Some(h) = &rec.hang {
        j.violate(ID, "hang", "hang".into(), format!("the server stops making progress: {h:?}"));
        return j;
    }
    // exactly one WELL-FORMED answer per request
    if let Some(crate::h::client::RxMsg::Malformed { why, body }) = rec.frames.iter().map(|f| &f.msg).find(|m| matches!(m, crate::h::client::RxMsg::Malformed { .. })) {
        j.violate(
            ID,
            "one-response",
            format!("one-response malformed {why}"),
            format!("the server sent a message that is not a well-formed JSON-RPC response or notification ({why}): {body}"),
        );
        return j;
    }
    // exactly one answer per request, in order; graceful end
    let got: Vec<i64> = rec.responses().iter().map(|r| r.0).collect();
    if got != reqs {
        let k = got.iter().zip(reqs.iter()).position(|(a, b)| a != b).unwrap_or(got.len().min(reqs.len()));
        j.violate(
            ID,
            "one-response",
            "one-response".into(),
            format!(
                "requests and responses do not pair up at position {k}: response id {:?}, request id {:?} ({} responses, {} requests); process end {:?}",
                got.get(k),
                reqs.get(k),
                got.len(),
                reqs.len(),
                rec.end.as_ref().map(|e| e.status())
            ),
        );
        return j;
    }
    if rec.status() != Some(0) {
        j.violate(ID, "died", "died".into(), format!("shutdown + exit must end with status 0, the process ended with {:?}", rec.end));
    }
    j
}
