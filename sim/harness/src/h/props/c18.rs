//! C18 — JSON-RPC/LSP lifecycle conformance and clean termination.
//!
//! Sessions are arbitrary sequences over {initialize, initialized, supported request, unknown
//! request, document notification, unknown notification, shutdown, exit}; the client may close its
//! write end after any byte prefix (`eof`), close its read end (`epipe`) or stall. A 5-state
//! reference model maps the frames the server has completely received to the responses it owes
//! and the exit status; the recorded history is checked against it.
use crate::h::client::{frames_of, RxMsg};
use crate::h::core::*;
use crate::h::gen;
use crate::h::runner::{self, Hang, RunOptions};
use crate::h::scenario::*;
use crate::h::session::Session;
use tokio::sim::{ProcessEnd, Rng};

pub const ID: &str = "C18";

#[derive(Clone, Debug, PartialEq)]
pub enum Owe {
    /// a result (any value)
    Ok,
    /// result must be `null`
    Null,
    /// result must be non-null
    NonNull,
    /// an error with one of these codes
    Err(Vec<i64>),
    /// exactly one response, content not prescribed
    Any,
}

#[derive(Clone, Copy, Debug, PartialEq)]
enum St {
    Uninit,
    AwaitInitialized,
    Running,
    ShuttingDown,
}

#[derive(Clone, Debug, PartialEq)]
pub enum ModelEnd {
    /// `exit` notification processed: process must end with this status
    Exit(i32),
    /// the stream ended; `clean` = on a frame boundary
    Eof { clean: bool },
}

pub struct Expect {
    pub owed: Vec<(i64, Owe)>,
    pub end: ModelEnd,
    /// all owed responses must have been written before the process ended
    pub complete: bool,
}

const SERVER_NOT_INITIALIZED: i64 = -32002;
const INVALID_REQUEST: i64 = -32600;
const METHOD_NOT_FOUND: i64 = -32601;

/// The lifecycle reference model. `ops` are the frames completely delivered, in order;
/// `clean_eof` tells whether the stream ended on a frame boundary.
pub fn model(ops: &[&ClientOp], clean_eof: bool) -> Expect {
    let mut st = St::Uninit;
    let mut owed = vec![];
    let mut open: std::collections::BTreeSet<String> = Default::default();
    for op in ops {
        let is_exit = matches!(op, ClientOp::Exit);
        if is_exit {
            let status = if st == St::ShuttingDown { 0 } else { 1 };
            return Expect {
                owed,
                end: ModelEnd::Exit(status),
                complete: st == St::ShuttingDown,
            };
        }
        match st {
            St::Uninit => match op {
                ClientOp::Initialize { id, .. } => {
                    owed.push((*id as i64, Owe::NonNull));
                    st = St::AwaitInitialized;
                }
                other => {
                    if let Some(id) = other.request_id() {
                        owed.push((id as i64, Owe::Err(vec![SERVER_NOT_INITIALIZED])));
                    }
                }
            },
            St::AwaitInitialized => match op {
                ClientOp::Initialized => st = St::Running,
                ClientOp::Initialize { id, .. } => {
                    owed.push((*id as i64, Owe::Err(vec![SERVER_NOT_INITIALIZED, INVALID_REQUEST])))
                }
                other => {
                    if let Some(id) = other.request_id() {
                        // the property is silent about this window: exactly one answer, in order,
                        // is required; the code is not prescribed beyond being an error or, for
                        // servers that already serve, a result
                        owed.push((id as i64, Owe::Any));
                    }
                }
            },
            St::Running => match op {
                ClientOp::Initialize { id, .. } => owed.push((*id as i64, Owe::Err(vec![INVALID_REQUEST]))),
                ClientOp::Shutdown { id } => {
                    owed.push((*id as i64, Owe::Null));
                    st = St::ShuttingDown;
                }
                ClientOp::UnknownRequest { id, .. } => owed.push((*id as i64, Owe::Err(vec![METHOD_NOT_FOUND]))),
                ClientOp::Request { id, .. } => owed.push((*id as i64, Owe::Ok)),
                ClientOp::TextProbe { id, uri } => {
                    owed.push((*id as i64, if open.contains(uri) { Owe::NonNull } else { Owe::Null }))
                }
                ClientOp::Open { uri, .. } => {
                    open.insert(uri.clone());
                }
                ClientOp::Close { uri } => {
                    open.remove(uri);
                }
                _ => {}
            },
            St::ShuttingDown => {
                if let Some(id) = op.request_id() {
                    owed.push((id as i64, Owe::Err(vec![INVALID_REQUEST])));
                }
            }
        }
    }
    Expect {
        owed,
        end: ModelEnd::Eof { clean: clean_eof },
        complete: clean_eof,
    }
}

/// What a panic did to the session: exit status (when `exit` was scripted), the responses written
/// must be the owed ones in order, and on the graceful paths all of them.
fn judge_after_panic(_sc: &Scenario, rec: &runner::RunRecord, exp: &Expect, _stream_end: usize) -> Judgement {
    let mut j = Judgement::default();
    if let Some(h) = &rec.hang {
        j.violate(ID, "terminates", "terminates".into(), format!("after a panic the process neither ends nor makes progress: {h:?}"));
        return j;
    }
    let status = rec.status().unwrap_or(-1);
    if let ModelEnd::Exit(want) = exp.end {
        if status != want {
            j.violate(ID, "exit-status", format!("exit-status want {want}"), format!("the session ends with `exit` and must end with status {want}, the process ended with {status}"));
            return j;
        }
    }
    let got = rec.responses();
    for (i, (id, result, code)) in got.iter().enumerate() {
        match exp.owed.get(i) {
            Some((want_id, owe)) if want_id == id && satisfies(owe, *result, *code) => {}
            _ => {
                j.violate(ID, "response-order", "response-order".into(), format!("response #{i} (id {id}) is not the response owed in that position"));
                return j;
            }
        }
    }
    if exp.complete && got.len() < exp.owed.len() {
        j.violate(
            ID,
            "complete-before-exit",
            "complete-before-exit".into(),
            format!("only {} of {} owed responses were written (first missing id {}), the process ended with status {status}", got.len(), exp.owed.len(), exp.owed[got.len()].0),
        );
    }
    j
}

fn satisfies(owe: &Owe, result: Option<&serde_json::Value>, code: Option<i64>) -> bool {
    match owe {
        // a result, or an error that is not one of the lifecycle codes (a server may answer a
        // supported request it cannot serve - unknown document - with an error; it must not
        // reject it as uninitialised / invalid-in-this-phase / unknown method)
        Owe::Ok => result.is_some() || code.map_or(false, |c| ![SERVER_NOT_INITIALIZED, INVALID_REQUEST, METHOD_NOT_FOUND].contains(&c)),
        Owe::Null => result.map_or(false, |v| v.is_null()),
        Owe::NonNull => result.map_or(false, |v| !v.is_null()),
        Owe::Err(codes) => code.map_or(false, |c| codes.contains(&c)),
        Owe::Any => true,
    }
}

// ------------------------------------------------------------------------------------------
// generation
// ------------------------------------------------------------------------------------------

const DOC: &str = "proc main() {\n  var i: int;\n  i := 1;\n  printi(i);\n}\n";
/// The same program with text beyond ASCII (2-, 3- and 4-byte characters): message bodies whose
/// length in bytes differs from their length in characters.
const DOC_U: &str = "proc main() { // größer → 😀\n  var i: int;\n  i := 1;\n  printi(i); // ✓ 𝄞\n}\n";

pub fn random_script(rng: &mut Rng, max_len: usize) -> Vec<Step> {
    let mut s = Session::new();
    let (first, stride) = pick_id_scheme(rng);
    s.id_scheme(first, stride);
    let uri = fresh_uri(0);
    let len = rng.range(1, max_len);
    let orderly = rng.chance(600);
    if orderly {
        if rng.chance(150) {
            // something before initialize
            match rng.below(3) {
                0 => {
                    s.request("textDocument/hover", &uri, 0, 5);
                }
                1 => s.open(&uri, DOC),
                _ => s.unknown_notification("$/early"),
            }
        }
        s.init(rng.chance(500));
        if rng.chance(200) {
            match rng.below(3) {
                0 => {
                    s.request("textDocument/foldingRange", &uri, 0, 0);
                }
                1 => s.init(false),
                _ => s.open(&uri, DOC),
            }
        }
        s.initialized();
    }
    while s.steps.len() < len {
        match rng.below(if orderly { 14 } else { 18 }) {
            0 | 1 | 2 => {
                let m = *rng.pick(&METHODS);
                let (l, c) = gen::request_position(rng, DOC);
                // keep to positions inside the text: C18 is about the lifecycle, not about C02's
                // crash sites at odd positions
                let (l, c) = if l > 4 || c > 12 { (3, 9) } else { (l, c) };
                s.request(m, &uri, l, c);
            }
            3 => {
                s.probe(&uri);
            }
            4 => {
                s.unknown_request(*rng.pick(&["x", "workspace/symbol", "$/unknown", "textDocument/didOpen"]));
            }
            5 | 6 => s.open(&uri, if rng.chance(300) { DOC_U } else { DOC }),
            7 => {
                let e = Edit {
                    range: Some([2, 7, 2, 8]),
                    text: rng.pick(&["2", "42", "i"]).to_string(),
                };
                s.change(&uri, vec![e]);
            }
            8 => s.close(&uri),
            9 => {
                if rng.chance(600) {
                    s.client_chatter(rng.below(5));
                } else {
                    s.unknown_notification(*rng.pick(&["$/cancelRequest", "workspace/didChangeConfiguration", "x"]));
                }
            }
            10 => {
                s.shutdown();
            }
            11 => s.exit(),
            12 => s.init(rng.chance(500)),
            13 => s.initialized(),
            14 | 15 => s.init(rng.chance(500)),
            16 => s.initialized(),
            _ => s.exit(),
        }
    }
    if rng.chance(500) {
        if rng.chance(700) {
            s.shutdown();
        }
        s.exit();
    }
    let p = *rng.pick(&[0u32, 0, 200, 600]);
    for st in s.steps.iter_mut().skip(1) {
        if rng.chance(p) {
            st.wait = true;
        }
    }
    // (VERIF_NO_SID: regression runs of kept changes that predate the repair of C18-K1 and can
    // only be applied to the tree as it was then; the draw is made in any case)
    let string_ids = rng.chance(20);
    if string_ids && std::env::var("VERIF_NO_SID").is_err() {
        // a client that uses string request ids
        for st in s.steps.iter_mut() {
            if st.op.request_id().is_some() {
                st.sid = true;
            }
        }
    }
    if rng.chance(200) {
        // frames that carry the optional Content-Type header, before or after Content-Length
        for st in s.steps.iter_mut() {
            if rng.chance(500) {
                st.hdr = 1 + rng.below(3) as u8;
            }
        }
    }
    s.steps
}

fn frame_ends(script: &[Step]) -> (Vec<usize>, usize) {
    let mut ends = vec![];
    let mut off = 0;
    for f in frames_of(script) {
        off += f.len();
        ends.push(off);
    }
    (ends, off)
}

pub fn generate(seed: u64, idx: u64) -> Scenario {
    let mut rng = Rng::derive(seed.wrapping_mul(0x9E37_79B9).wrapping_add(idx), "c18");
    let script = random_script(&mut rng, 12);
    let (ends, total) = frame_ends(&script);
    let mut sc = Scenario {
        property: ID.into(),
        label: "random lifecycle".into(),
        seed,
        knobs: pick_knobs(&mut rng, true),
        schedule: Schedule {
            policy: pick_policy(&mut rng, 300),
            seed: rng.next_u64(),
        },
        script,
        segmentation: Segmentation::Frames,
        faults: vec![],
        close_at_end: true,
    };
    let (_, stream) = runner::session_bytes(&sc);
    sc.segmentation = pick_segmentation(&mut rng, &stream, &ends);
    match rng.below(10) {
        0..=3 => {
            // end of input after a byte prefix: frame boundaries, header/body boundaries, anywhere
            let at = match rng.below(3) {
                0 => *rng.pick(&ends),
                1 => {
                    let ic = interesting_cuts(&stream, &ends);
                    *rng.pick(&ic)
                }
                _ => rng.below(total + 1),
            };
            if rng.chance(250) {
                sc.faults.push(Fault::ReadError { at_byte: at });
                sc.label = "random lifecycle + read error".into();
            } else {
                sc.faults.push(Fault::Eof { at_byte: at });
                sc.label = "random lifecycle + eof".into();
            }
        }
        4 => {
            sc.faults.push(Fault::Epipe {
                after_rx_bytes: rng.below(600),
            });
            sc.label = "random lifecycle + epipe".into();
        }
        5 | 6 => {
            sc.faults.push(Fault::StallRx {
                from_segment: rng.below(6),
                // up to two simulated seconds - or far longer than any timeout a server would use
                ticks: if rng.chance(400) { *rng.pick(&[3_000u64, 10_000, 60_000]) } else { rng.range(10, 2000) as u64 },
            });
            sc.label = "random lifecycle + stall".into();
        }
        _ => {}
    }
    sc
}

fn corpus(seed: u64, k: u64) -> Vec<Step> {
    if k == 0 {
        let mut s = Session::new();
        let u = fresh_uri(0);
        s.request("textDocument/hover", &u, 0, 5);
        s.init(true);
        s.init(false);
        s.initialized();
        s.open(&u, DOC);
        s.request("textDocument/hover", &u, 2, 2);
        s.unknown_request("x");
        s.init(true);
        s.probe(&u);
        s.shutdown();
        s.request("textDocument/hover", &u, 2, 2);
        s.exit();
        s.steps
    } else {
        let mut rng = Rng::derive(seed.wrapping_add(k * 104729), "c18-corpus");
        let mut sc = random_script(&mut rng, 10);
        for st in &mut sc {
            st.wait = false;
        }
        sc
    }
}

/// Systematic history sweep: EVERY sequence of messages up to a given length over the lifecycle
/// alphabet of the property (initialize, initialized, supported request, unknown request, document
/// notifications, unknown notification, shutdown, exit, text probe), delivered one frame per
/// write, with end of input behind the last message. `all_sequences_len(n)` sequences of length
/// 1..=n; index `i` decodes to a sequence in base-`ALPHABET` digits.
pub const ALPHABET: u64 = 10;

pub fn all_sequences_len(max_len: u32) -> u64 {
    (1..=max_len).map(|l| ALPHABET.pow(l)).sum()
}

pub fn sequence(seed: u64, mut i: u64, max_len: u32) -> Option<Scenario> {
    let mut len = 1;
    while len <= max_len && i >= ALPHABET.pow(len) {
        i -= ALPHABET.pow(len);
        len += 1;
    }
    if len > max_len {
        return None;
    }
    let mut s = Session::new();
    let uri = fresh_uri(0);
    let mut digits = vec![];
    for _ in 0..len {
        digits.push(i % ALPHABET);
        i /= ALPHABET;
    }
    for d in &digits {
        match d {
            0 => s.init(true),
            1 => s.initialized(),
            2 => {
                s.request("textDocument/hover", &uri, 3, 9);
            }
            3 => {
                s.unknown_request("workspace/symbol");
            }
            4 => s.open(&uri, DOC),
            5 => s.change(&uri, vec![Edit { range: Some([2, 7, 2, 8]), text: "2".into() }]),
            6 => s.unknown_notification("$/cancelRequest"),
            7 => {
                s.shutdown();
            }
            8 => s.exit(),
            _ => {
                s.probe(&uri);
            }
        }
    }
    Some(Scenario {
        property: ID.into(),
        label: format!("history sweep: {}", digits.iter().map(|d| d.to_string()).collect::<String>()),
        seed,
        knobs: Knobs::shipped(),
        schedule: Schedule {
            policy: if digits.iter().sum::<u64>() % 2 == 0 { Policy::Fifo } else { Policy::Uniform },
            seed: digits.iter().fold(7u64, |a, d| a.wrapping_mul(31).wrapping_add(*d)),
        },
        script: s.steps,
        segmentation: if digits[0] % 2 == 0 { Segmentation::Frames } else { Segmentation::Coalesced },
        faults: vec![],
        close_at_end: true,
    })
}

/// Systematic sweep: end of input after every byte prefix of the corpus sessions.
pub fn sweep_sizes(seed: u64, corpus_n: u64) -> Vec<(u64, usize)> {
    (0..corpus_n)
        .map(|k| (k, 2 * (frame_ends(&corpus(seed, k)).1 + 1)))
        .collect()
}

pub fn sweep(seed: u64, k: u64, at: usize) -> Scenario {
    // the second pass over the same prefixes ends the stream with a read error instead
    let n = frame_ends(&corpus(seed, k)).1 + 1;
    let (at, err) = if at >= n { (at - n, true) } else { (at, false) };
    Scenario {
        property: ID.into(),
        label: format!("sweep corpus {k}: {} after byte {at}", if err { "read error" } else { "eof" }),
        seed,
        knobs: Knobs::shipped(),
        schedule: Schedule {
            policy: if at % 2 == 0 { Policy::Fifo } else { Policy::Uniform },
            seed: at as u64,
        },
        script: corpus(seed, k),
        segmentation: Segmentation::Frames,
        faults: vec![if err { Fault::ReadError { at_byte: at } } else { Fault::Eof { at_byte: at } }],
        close_at_end: true,
    }
}

// ------------------------------------------------------------------------------------------
// judgement
// ------------------------------------------------------------------------------------------

pub fn judge(sc: &Scenario) -> Judgement {
    let mut j = judge_inner(sc);
    // identify what failed as precisely as the scenario allows (known-finding matching): sessions
    // in which the client used string request ids
    if sc.script.iter().any(|s| s.sid) {
        for v in &mut j.violations {
            v.signature.push_str(" [string request ids]");
        }
    }
    j
}

fn judge_inner(sc: &Scenario) -> Judgement {
    let mut j = Judgement::default();
    let rec = runner::run(sc, &RunOptions::default());
    j.runs.push(RunStats::of(&rec));
    let (ends, total) = frame_ends(&sc.script);
    let stream_end = rec.eof_at.unwrap_or(total);
    let delivered: Vec<&ClientOp> = sc
        .script
        .iter()
        .zip(ends.iter())
        .filter(|(_, e)| **e <= stream_end)
        .map(|(s, _)| &s.op)
        .collect();
    // a stream that ends with an I/O error is an abnormal end wherever it happens
    let clean = !rec.read_error && (stream_end == 0 || ends.contains(&stream_end));
    let exp = model(&delivered, clean);
    j.probe("eof on a frame boundary", (rec.eof_at.is_some() && clean) as u64);
    j.probe("eof inside a frame", (rec.eof_at.is_some() && !clean) as u64);
    j.probe("stdin ended with a read error", rec.read_error as u64);
    j.probe("epipe fired", rec.epipe_fired as u64);
    j.probe("exit without shutdown", matches!(exp.end, ModelEnd::Exit(1)) as u64);
    j.probe("exit after shutdown", matches!(exp.end, ModelEnd::Exit(0)) as u64);
    j.probe("exit with responses still queued (race observed, prefix rule applies)", rec.fired.exit_with_queued_output);
    j.probe("request before initialize", delivered.first().map_or(false, |o| o.request_id().is_some() && !matches!(o, ClientOp::Initialize { .. })) as u64);
    j.probe("client stalled reading", rec.fired.stall_rx);
    j.probe("sender blocked on full iotx", rec.summary.counters.send_blocked[0]);

    if let Some(e) = &rec.framing_error {
        j.notes.push(format!("other-property=C19 emitted stream is not well-framed: {e}"));
        return j;
    }
    // a well-framed body that is not a JSON-RPC response with an integer id and exactly one of
    // result / error is not "a response carrying its id"
    if let Some(RxMsg::Malformed { why, body }) = rec.frames.iter().map(|f| &f.msg).find(|m| matches!(m, RxMsg::Malformed { .. })) {
        if !rec.epipe_fired {
            j.violate(
                ID,
                "well-formed-response",
                format!("well-formed-response {why}"),
                format!("the server sent a message that is not a well-formed JSON-RPC response or notification ({why}): {body}"),
            );
            return j;
        }
    }
    if rec.epipe_fired {
        // once the client has stopped listening only termination is specified; panics of the
        // responder / broker / main on the broken pipe are the expected way down
        if let Some(h) = &rec.hang {
            j.violate(ID, "terminates", "terminates".into(), format!("after the client closed its read end the process does not terminate: {h:?}"));
        }
        return j;
    }
    let unexpected_panics: Vec<String> = rec
        .task_panics
        .iter()
        .filter(|(_, p)| !(rec.epipe_fired && p.message.contains("Sending responses failed")))
        .map(|(t, p)| format!("task {t}: {} at {}:{}", p.message, p.file, p.line))
        .collect();
    // A panic is C02's finding as such - but what it does to this session's responses and exit
    // status is judged here as well (C02's sessions are orderly; a crash that only a lifecycle
    // oddity reaches - a request after `shutdown`, a second `initialize` - would otherwise be
    // nobody's): the judgement goes on and the signature says that a panic was involved.
    let mut panicked: Option<String> = None;
    if let Some(ProcessEnd::MainPanicked(p)) = &rec.end {
        if !rec.epipe_fired {
            j.notes.push(format!("other-property=C02 main task panicked: {} at {}:{}", p.message, p.file, p.line));
            panicked = Some(super::c02::site(p));
        }
    }
    if !unexpected_panics.is_empty() {
        j.notes.push(format!("other-property=C02 task panic: {}", unexpected_panics.join("; ")));
        panicked = panicked.or_else(|| rec.task_panics.first().map(|(_, p)| super::c02::site(p)));
    }
    if let Some(site) = &panicked {
        let mut jj = judge_after_panic(sc, &rec, &exp, stream_end);
        for v in &mut jj.violations {
            v.signature = format!("{} after panic {site}", v.signature);
        }
        j.violations.extend(jj.violations);
        return j;
    }

    // termination
    if let Some(h) = &rec.hang {
        let clause = match h {
            Hang::Deadlock { .. } if rec.written < stream_end => "missing-response",
            _ => "terminates",
        };
        j.violate(
            ID,
            clause,
            clause.into(),
            format!(
                "the process does not terminate / make progress (stream of {stream_end} bytes{}): {h:?}",
                if rec.eof_at.is_some() { ", then end of input" } else { "" }
            ),
        );
        return j;
    }
    let status = rec.status().unwrap_or(-1);
    if rec.epipe_fired {
        // only termination is specified once the client has stopped listening
        return j;
    }
    // exit status
    if let ModelEnd::Exit(want) = exp.end {
        j.comparisons += 1;
        if status != want {
            j.violate(
                ID,
                "exit-status",
                format!("exit-status want {want}"),
                format!("`exit` {} shutdown must end the process with status {want}, got {status} ({:?})", if want == 0 { "after" } else { "without" }, rec.end),
            );
            return j;
        }
    }
    // responses: exactly the owed ones, in order (a prefix on the abnormal paths)
    let got = rec.responses();
    j.comparisons += got.len() as u64;
    for (i, (id, result, code)) in got.iter().enumerate() {
        match exp.owed.get(i) {
            None => {
                j.violate(
                    ID,
                    "no-extra-response",
                    "no-extra-response".into(),
                    format!("response #{i} (id {id}) is not owed: the model owes only {} responses", exp.owed.len()),
                );
                return j;
            }
            Some((want_id, owe)) => {
                if want_id != id {
                    j.violate(
                        ID,
                        "response-order",
                        "response-order".into(),
                        format!("response #{i} carries id {id}, the request in that position has id {want_id}"),
                    );
                    return j;
                }
                if !satisfies(owe, *result, *code) {
                    j.violate(
                        ID,
                        "response-kind",
                        format!("response-kind want {owe:?}"),
                        format!("response to request id {id}: expected {owe:?}, got result={result:?} error code={code:?}"),
                    );
                    return j;
                }
            }
        }
    }
    if exp.complete && got.len() < exp.owed.len() {
        j.violate(
            ID,
            "complete-before-exit",
            "complete-before-exit".into(),
            format!(
                "graceful termination ({:?}, status {status}) but only {} of {} owed responses were written; first missing id {}",
                exp.end,
                got.len(),
                exp.owed.len(),
                exp.owed[got.len()].0
            ),
        );
        return j;
    }
    if exp.complete && !rec.trailing.is_empty() {
        j.violate(
            ID,
            "complete-before-exit",
            "complete-before-exit".into(),
            format!("graceful termination but the output ends with a truncated frame of {} bytes", rec.trailing.len()),
        );
    }
    // server-to-client notifications other than publishDiagnostics are not forbidden by the
    // property; they are only recorded
    for f in &rec.frames {
        if let RxMsg::Notification { method, .. } = &f.msg {
            if method != "textDocument/publishDiagnostics" {
                j.probe("server sent a notification other than publishDiagnostics", 1);
            }
        }
    }
    j
}
