//! C01 — incremental re-analysis equals analysis from scratch.
//!
//! Editing sessions (single edits, batches, typing bursts; valid, broken and Unicode documents)
//! run through the whole server; after **every** didOpen/didChange the broker's document (observer
//! hook) is compared with a fresh analysis of the same text: token stream, syntax tree with every
//! diagnostic attached to it, symbol table, `errors()`, and the `publishDiagnostics` the client
//! received for that step. The simulation contributes the *history*: state carried across steps
//! (absolute token ranges, a tree of relative ranges, diagnostics stored in the tree).
use crate::h::client::RxMsg;
use crate::h::core::*;
use crate::h::gen::{self, DocKind};
use crate::h::runner::{self, RunOptions};
use crate::h::scenario::*;
use crate::h::session::Session;
use serde_json::{json, Value};
use spl_frontend::error::ErrorMessage;
use spl_frontend::{AnalyzedSource, ErrorContainer};
use tokio::sim::Rng;

pub const ID: &str = "C01";

pub fn generate(seed: u64, idx: u64) -> Scenario {
    let mut rng = Rng::derive(seed.wrapping_mul(0x9E37_79B9).wrapping_add(idx), "c01");
    let mut s = Session::new();
    s.handshake(rng.chance(800));
    let ndocs = *rng.pick(&[1usize, 1, 1, 2]);
    let uris: Vec<String> = (0..ndocs).map(fresh_uri).collect();
    // the family of this session: what kind of states it moves through
    let family = rng.below(10);
    for u in &uris {
        let kind = match family {
            0..=5 => DocKind::Valid,
            6 | 7 => DocKind::Broken,
            8 => DocKind::Unicode,
            _ => DocKind::Soup,
        };
        let mut t = gen::document(&mut rng, kind);
        if rng.chance(50) {
            t = rng.pick(&gen::TINY).to_string();
        }
        s.open(u, &t);
    }
    let n = rng.range(1, 40);
    let mut steps = 0;
    if rng.chance(300) {
        if let Some(k) = neighbour(&mut rng, &mut s, &uris[0]) {
            steps = n.saturating_sub(k.min(3)); // a few ordinary steps may follow
        }
    } else if rng.chance(60) {
        // a program written from nothing, keystroke by keystroke, then partly erased again
        let uri = uris[0].clone();
        s.close(&uri);
        s.open(&uri, "");
        let size = rng.range(1, 3);
        let program = gen::valid_program(&mut rng, size);
        let mut cur = String::new();
        let pieces = gen::type_from_scratch(&mut rng, &program, 400);
        for piece in &pieces {
            let e = gen::to_lsp_edit(&cur, cur.len()..cur.len(), piece.clone());
            gen::apply(&mut cur, &e);
            s.change(&uri, vec![e]);
            if rng.chance(60) {
                let (m, l, c) = gen::cursor_request(&mut rng, &cur, cur.len());
                s.request(m, &uri, l, c);
            }
        }
        let erase = rng.below(30);
        for _ in 0..erase {
            if cur.is_empty() {
                break;
            }
            let a = gen::snap(&cur, cur.len() - 1);
            let e = gen::to_lsp_edit(&cur, a..cur.len(), String::new());
            gen::apply(&mut cur, &e);
            s.change(&uri, vec![e]);
        }
        steps = n; // the typing is the session
    }
    let mut hist: std::collections::BTreeMap<String, Vec<String>> = Default::default();
    while steps < n {
        let uri = rng.pick(&uris).clone();
        let text = s.text(&uri).cloned().unwrap_or_default();
        if hist.get(&uri).and_then(|h| h.last()) != Some(&text) && text.len() < 20_000 {
            hist.entry(uri.clone()).or_default().push(text.clone());
        }
        if rng.chance(50) {
            // the life of a document beyond single edits: close/re-open, emptied and filled, undo/redo
            let h = hist.get(&uri).map(|h| &h[..h.len() - 1]).unwrap_or(&[]).to_vec();
            steps += gen::lifecycle_steps(&mut rng, &mut s, &uri, &h).max(1);
            continue;
        }
        match (family, rng.below(14)) {
            (_, 13) => {
                // the boundaries of the text: everything deleted / replaced, offset 0, the end -
                // or the whole text replaced by a change without range (alone, or followed by a
                // ranged change in the same notification)
                if rng.chance(300) {
                    // (one in four re-sends the text as it is: a client re-synchronising after a save or a revert)
                    let new_text = match rng.below(4) {
                        0 | 1 => gen::document(&mut rng, DocKind::Valid),
                        2 => text.replace("int", "int "),
                        _ => text.clone(),
                    };
                    let mut edits = vec![Edit { range: None, text: new_text.clone() }];
                    if rng.chance(400) {
                        let (r, repl) = gen::structural_edit(&mut rng, &new_text);
                        let a = gen::snap(&new_text, r.start);
                        let b = gen::snap(&new_text, r.end).max(a);
                        edits.push(gen::to_lsp_edit(&new_text, a..b, repl));
                    }
                    s.change(&uri, edits);
                } else {
                    let (r, repl) = gen::boundary_case_edit(&mut rng, &text);
                    let e = gen::to_lsp_edit(&text, r, repl);
                    s.change(&uri, vec![e]);
                }
                steps += 1;
            }
            (_, roll @ (10 | 11 | 12)) => {
                // trivia + change of a looked-ahead token + undo, one notification each; or the
                // same at the place where error recovery stops
                let mut cur = text.clone();
                let seq = if roll == 12 { gen::recovery_probe(&mut rng, &text) } else { gen::lookahead_probe(&mut rng, &text) };
                for (r, repl) in seq {
                    let a = gen::snap(&cur, r.start.min(cur.len()));
                    let b = gen::snap(&cur, r.end.min(cur.len())).max(a);
                    let e = gen::to_lsp_edit(&cur, a..b, repl);
                    gen::apply(&mut cur, &e);
                    s.change(&uri, vec![e]);
                    steps += 1;
                }
            }
            (_, 9) => {
                // edits in the look-ahead region behind a statement boundary
                let mut cur = text.clone();
                let k = *rng.pick(&[1usize, 1, 2]);
                let mut edits = vec![];
                for _ in 0..k {
                    let (r, repl) = gen::boundary_edit(&mut rng, &cur);
                    let a = gen::snap(&cur, r.start);
                    let b = gen::snap(&cur, r.end).max(a);
                    let e = gen::to_lsp_edit(&cur, a..b, repl);
                    gen::apply(&mut cur, &e);
                    edits.push(e);
                }
                s.change(&uri, edits);
                steps += 1;
            }
            (0..=3, 0..=7) | (4..=9, 0..=3) => {
                // structural edits, singly or in batches
                let mut cur = text.clone();
                let k = batch_size(&mut rng, &[1usize, 1, 1, 2, 3]);
                let mut edits = vec![];
                for _ in 0..k {
                    let (r, repl) = gen::structural_edit(&mut rng, &cur);
                    let a = gen::snap(&cur, r.start);
                    let b = gen::snap(&cur, r.end).max(a);
                    let e = gen::to_lsp_edit(&cur, a..b, repl);
                    gen::apply(&mut cur, &e);
                    edits.push(e);
                }
                s.change(&uri, edits);
                steps += 1;
            }
            (_, 8) => {
                // typing burst: every keystroke its own notification
                let mut cur = text.clone();
                for (r, repl) in gen::typing_edits(&mut rng, &text) {
                    let a = gen::snap(&cur, r.start.min(cur.len()));
                    let b = gen::snap(&cur, r.end.min(cur.len())).max(a);
                    let e = gen::to_lsp_edit(&cur, a..b, repl);
                    gen::apply(&mut cur, &e);
                    s.change(&uri, vec![e]);
                    steps += 1;
                }
            }
            _ => {
                let mut cur = text.clone();
                let k = batch_size(&mut rng, &[1usize, 1, 1, 2, 5]);
                let mut edits = vec![];
                for _ in 0..k {
                    let small = rng.chance(600);
                    let (r, repl) = gen::arbitrary_edit(&mut rng, &cur, small);
                    let e = gen::to_lsp_edit(&cur, r, repl);
                    gen::apply(&mut cur, &e);
                    edits.push(e);
                }
                s.change(&uri, edits);
                steps += 1;
            }
        }
        if rng.chance(15) {
            // a didChange without content changes (a version bump only) is legal
            s.change(&uri, vec![]);
        }
        if rng.chance(150) {
            let m = *rng.pick(&METHODS);
            let t = s.text(&uri).cloned().unwrap_or_default();
            let (l, c) = gen::request_position(&mut rng, &t);
            s.request(m, &uri, l, c);
        }
    }
    // feature answers on the final state: they must be those of a freshly opened document
    if rng.chance(400) {
        for u in &uris {
            if let Some(t) = s.text(u).cloned() {
                for m in METHODS {
                    if rng.chance(500) {
                        let (l, c) = gen::request_position(&mut rng, &t);
                        s.request(m, u, l, c);
                    }
                }
            }
        }
    }
    s.shutdown();
    s.exit();
    Scenario {
        property: ID.into(),
        label: match family {
            0..=3 => "structural edits on valid programs",
            4 | 5 => "mixed edits on valid programs",
            6 | 7 => "edits on broken programs",
            8 => "edits on Unicode text",
            _ => "edits on token soup",
        }
        .into(),
        seed,
        knobs: Knobs {
            chan_caps: pick_caps(&mut rng),
            ..Knobs::shipped()
        },
        schedule: Schedule {
            policy: pick_policy(&mut rng, 500),
            seed: rng.next_u64(),
        },
        script: s.steps,
        segmentation: if rng.chance(500) { Segmentation::Frames } else { Segmentation::Fixed { k: 997 } },
        faults: vec![],
        close_at_end: true,
    }
}

/// A session in the neighbourhood of a committed regression scenario: the same edits on a text
/// with other trivia in the token gaps (comments, line breaks), optionally behind other
/// declarations so that absolute and reference-relative token positions differ, optionally
/// followed by the inverse edit. Returns the number of steps added.
fn neighbour(rng: &mut Rng, s: &mut Session, uri: &str) -> Option<usize> {
    let corpus = super::corpus(ID);
    if corpus.is_empty() {
        return None;
    }
    let base = rng.pick(corpus);
    let mut o = base.script.iter().find_map(|st| match &st.op {
        ClientOp::Open { text, .. } => Some(text.clone()),
        _ => None,
    })?;
    let prefix = if rng.chance(400) {
        let mut p = gen::valid_program(rng, 1);
        if !p.ends_with('\n') {
            p.push('\n');
        }
        // without a second `main`
        p.replace("proc main(", "proc other(")
    } else {
        String::new()
    };
    let mut q = if rng.chance(800) { gen::perturb_trivia(rng, &o) } else { o.clone() };
    s.close(uri);
    s.open(uri, &format!("{prefix}{q}"));
    let mut steps = 0;
    for st in &base.script {
        let ClientOp::Change { edits, .. } = &st.op else { continue };
        let mut mapped = vec![];
        let mut undo: Vec<(usize, usize, String)> = vec![];
        for e in edits {
            // the edit as byte range of the original text, re-targeted to the perturbed one
            let (a, b) = match e.range {
                Some([sl, sc, el, ec]) => (crate::h::client::offset_at(&o, sl, sc), crate::h::client::offset_at(&o, el, ec)),
                None => (0, o.len()),
            };
            let (a, b) = (a.min(o.len()), b.min(o.len()).max(a.min(o.len())));
            let (qa, qb) = (gen::map_offset(&o, &q, a), gen::map_offset(&o, &q, b));
            let (qa, qb) = (qa.min(qb), qb.max(qa));
            let full = format!("{prefix}{q}");
            let le = gen::to_lsp_edit(&full, prefix.len() + qa..prefix.len() + qb, e.text.clone());
            undo.push((qa, qa + e.text.len(), q[qa..qb].to_string()));
            o.replace_range(a..b, &e.text);
            q.replace_range(qa..qb, &e.text);
            mapped.push(le);
        }
        s.change(uri, mapped);
        steps += 1;
        if rng.chance(300) {
            // and back again, one notification per edit in reverse order
            for (a, b, old) in undo.into_iter().rev() {
                let full = format!("{prefix}{q}");
                if !full.is_char_boundary(prefix.len() + a) || !full.is_char_boundary(prefix.len() + b) {
                    break;
                }
                let le = gen::to_lsp_edit(&full, prefix.len() + a..prefix.len() + b, old.clone());
                q.replace_range(a..b, &old);
                s.change(uri, vec![le]);
                steps += 1;
            }
            break; // `o` is no longer in step
        }
    }
    Some(steps)
}

/// syntactically valid = a fresh analysis reports no lexical and no parse error
pub fn syntax_ok(doc: &AnalyzedSource) -> bool {
    tokio::sim::catch(|| {
        doc.errors()
            .iter()
            .all(|e| !matches!(e.1, ErrorMessage::LexErrorMessage(_) | ErrorMessage::ParseErrorMessage(_)))
    })
    .unwrap_or(false)
}

/// First differing line of two pretty-printed values with the chain of enclosing node names.
fn first_diff(a: &str, b: &str) -> (String, String, String) {
    let la: Vec<&str> = a.lines().collect();
    let lb: Vec<&str> = b.lines().collect();
    let k = la.iter().zip(lb.iter()).position(|(x, y)| x != y).unwrap_or(la.len().min(lb.len()));
    // enclosing names: walk back over decreasing indentation
    let mut path = vec![];
    let indent = |l: &str| l.len() - l.trim_start().len();
    let mut cur = la.get(k).map_or(0, |l| indent(l));
    let mut i = k;
    while i > 0 && cur > 0 {
        i -= 1;
        let ind = indent(la[i]);
        if ind < cur {
            let t = la[i].trim().trim_end_matches(|c| c == '{' || c == '(' || c == '[' || c == ' ');
            let t = t.rsplit(": ").next().unwrap_or(t);
            if !t.is_empty() && t.chars().next().unwrap().is_ascii_uppercase() {
                path.push(t.to_string());
            }
            cur = ind;
        }
    }
    path.reverse();
    // drop wrappers that carry no information
    path.retain(|p| p != "Some" && p != "Reference" && p != "Valid");
    let field = |l: Option<&&str>| l.map_or("<end>".to_string(), |l| l.trim().to_string());
    (path.join(">"), field(la.get(k)), field(lb.get(k)))
}

fn field_name(line: &str) -> String {
    let l = line.trim();
    match l.split_once(':') {
        Some((f, _)) if f.chars().all(|c| c.is_ascii_alphanumeric() || c == '_') => f.to_string(),
        _ => l.split(|c: char| !c.is_ascii_alphanumeric() && c != '_').next().unwrap_or("").to_string(),
    }
}

/// Compares the broker's document with a fresh analysis. `Some((clause, signature, detail))` on
/// the first difference.
pub fn compare(doc: &AnalyzedSource, fresh: &AnalyzedSource) -> Option<(&'static str, String, String)> {
    if doc.tokens != fresh.tokens {
        // the token layer is C07's; reported here only as the reason the tree cannot be right
        return Some(("tokens", "tokens".into(), "token stream differs from a fresh tokenisation (C07's layer)".into()));
    }
    if doc.ast != fresh.ast {
        let (path, a, b) = first_diff(&format!("{:#?}", doc.ast), &format!("{:#?}", fresh.ast));
        if std::env::var("VERIF_DIFF").is_ok() {
            let (x, y) = (format!("{:#?}", doc.ast), format!("{:#?}", fresh.ast));
            let (lx, ly): (Vec<&str>, Vec<&str>) = (x.lines().collect(), y.lines().collect());
            let k = lx.iter().zip(ly.iter()).position(|(p, q)| p != q).unwrap_or(0);
            eprintln!("---- incremental (from line {k})");
            for l in lx.iter().skip(k.saturating_sub(12)).take(40) {
                eprintln!("{l}");
            }
            eprintln!("---- fresh");
            for l in ly.iter().skip(k.saturating_sub(12)).take(40) {
                eprintln!("{l}");
            }
        }
        let kind = if field_name(&a) == field_name(&b) { format!("field {}", field_name(&a)) } else { "structure".to_string() };
        return Some((
            "tree",
            format!("tree {kind} at {path} | {a} vs {b}"),
            format!("syntax tree differs at {path}: incremental has `{a}`, fresh has `{b}`"),
        ));
    }
    if doc.table != fresh.table {
        let mut names: Vec<&String> = doc.table.entries.keys().chain(fresh.table.entries.keys()).collect();
        names.sort();
        names.dedup();
        let bad: Vec<&String> = names
            .into_iter()
            .filter(|n| doc.table.entries.get(*n) != fresh.table.entries.get(*n))
            .collect();
        return Some((
            "table",
            "table".into(),
            format!("symbol table differs for entries {bad:?}"),
        ));
    }
    let e1 = tokio::sim::catch(|| doc.errors());
    let e2 = tokio::sim::catch(|| fresh.errors());
    match (e1, e2) {
        (Ok(a), Ok(b)) => {
            if a != b {
                return Some(("diagnostics", "diagnostics".into(), format!("errors() differs: incremental {a:?}, fresh {b:?}")));
            }
        }
        (Err(p), Ok(_)) => {
            return Some(("diagnostics", "diagnostics errors-panics".into(), format!("errors() panics on the incremental document only: {}", p.message)));
        }
        _ => {}
    }
    None
}

fn diag_json(doc: &AnalyzedSource) -> Option<Value> {
    let errs = tokio::sim::catch(|| doc.errors()).ok()?;
    Some(Value::Array(
        errs.iter()
            .map(|e| {
                let r = crate::document::as_pos_range(&e.0, &doc.text);
                json!({
                    "range": {"start": {"line": r.start.line, "character": r.start.character},
                              "end": {"line": r.end.line, "character": r.end.character}},
                    "severity": 1,
                    "message": e.1.to_string(),
                })
            })
            .collect(),
    ))
}

pub fn diag_json_pub(doc: &AnalyzedSource) -> Option<Value> {
    diag_json(doc)
}

pub fn judge(sc: &Scenario) -> Judgement {
    let mut j = Judgement::default();
    let rec = runner::run(
        sc,
        &RunOptions {
            observe_docs: true,
            ..Default::default()
        },
    );
    j.runs.push(RunStats::of(&rec));
    j.probe("steps compared with a fresh analysis", rec.doc_obs.len() as u64);
    let diag_on = matches!(sc.script.first().map(|s| &s.op), Some(ClientOp::Initialize { diag: true, .. }));
    let published: Vec<&Value> = rec
        .frames
        .iter()
        .filter_map(|f| match &f.msg {
            RxMsg::Notification { method, params } if method == "textDocument/publishDiagnostics" => Some(params),
            _ => None,
        })
        .collect();
    // the texts that result from the edits, per document, in the client's send order
    let mut want_texts: std::collections::BTreeMap<String, std::collections::VecDeque<String>> = Default::default();
    {
        let mut replica = crate::h::client::Replica::default();
        for st in &sc.script {
            match &st.op {
                ClientOp::Open { uri, .. } => {
                    replica.apply(&st.op);
                    want_texts.entry(uri.clone()).or_default().push_back(replica.docs[uri].clone());
                }
                ClientOp::Change { uri, .. } => {
                    if replica.docs.contains_key(uri) {
                        replica.apply(&st.op);
                        want_texts.entry(uri.clone()).or_default().push_back(replica.docs[uri].clone());
                    }
                }
                ClientOp::Exit => break,
                other => replica.apply(other),
            }
        }
    }
    let mut prev_ok: std::collections::BTreeMap<String, bool> = Default::default();
    let (mut vv, mut vb, mut bv, mut bb) = (0u64, 0u64, 0u64, 0u64);
    let mut reported = false;
    for (k, o) in rec.doc_obs.iter().enumerate() {
        j.comparisons += 1;
        let fresh = match tokio::sim::catch(|| AnalyzedSource::new(o.doc.text.clone())) {
            Ok(f) => f,
            Err(p) => {
                j.notes.push(format!("other-property=C02 fresh analysis panics: {}", super::c02::site(&p)));
                break;
            }
        };
        let now_ok = syntax_ok(&fresh);
        let was = prev_ok.insert(o.uri.clone(), now_ok);
        let class = match (was, now_ok) {
            (None, _) => "open",
            (Some(true), true) => {
                vv += 1;
                "valid-valid"
            }
            (Some(true), false) => {
                vb += 1;
                "valid-broken"
            }
            (Some(false), true) => {
                bv += 1;
                "broken-valid"
            }
            (Some(false), false) => {
                bb += 1;
                "broken-broken"
            }
        };
        if reported {
            continue;
        }
        // "the resulting text": what the server analysed must be what the edits produce
        // (per document a subsequence of the resulting texts: a broker may apply queued changes in
        // one go, but never analyse a text the edits do not produce)
        if let Some(q) = want_texts.get_mut(&o.uri) {
            match q.iter().position(|t| *t == o.doc.text) {
                Some(p) => {
                    q.drain(..=p);
                }
                None => {
                    let want = q.front().cloned().unwrap_or_default();
                    j.violate(
                        ID,
                        "resulting-text",
                        "resulting-text".into(),
                        format!(
                            "update #{k} of {}: the document the server analysed is not the text that results from the edits sent so far ({} bytes vs {} bytes; first difference at byte {})",
                            o.uri,
                            o.doc.text.len(),
                            want.len(),
                            want.bytes().zip(o.doc.text.bytes()).position(|(a, b)| a != b).unwrap_or(want.len().min(o.doc.text.len()))
                        ),
                    );
                    reported = true;
                    continue;
                }
            }
        }
        if let Some((clause, sig, detail)) = compare(&o.doc, &fresh) {
            if clause == "tokens" {
                // the token stream is named in C01's statement too; C07 judges the same layer with
                // the window clauses on top
                j.notes.push("other-property=C07 token stream differs from a fresh tokenisation".into());
            }
            j.violate(
                ID,
                clause,
                format!("{class} {sig}"),
                format!("after observed update #{k} of {} ({class} step; text now {} bytes): {detail}", o.uri, o.doc.text.len()),
            );
            reported = true;
            continue;
        }
        // user-visible projection: the publishDiagnostics of this step
        if diag_on {
            if let (Some(p), Some(want)) = (published.get(k), diag_json(&fresh)) {
                let mut got = p.get("diagnostics").cloned().unwrap_or(Value::Null);
                strip_nulls(&mut got);
                j.probe("publishDiagnostics compared with the fresh analysis", 1);
                if got != want {
                    // the document itself equals the fresh analysis (checked above), so what
                    // reached the client is another publication: ordering / delivery (C20)
                    j.notes.push(format!(
                        "other-property=C20 publishDiagnostics #{k} is not the one of update #{k} although the document is right"
                    ));
                    reported = true;
                }
            }
        }
    }
    // the last resulting text of every document must have been analysed
    let clean_end0 = matches!(rec.end, Some(tokio::sim::ProcessEnd::MainReturned(true))) && rec.hang.is_none() && rec.task_panics.is_empty();
    if !reported && clean_end0 {
        for (uri, q) in &want_texts {
            if !q.is_empty() {
                j.violate(
                    ID,
                    "resulting-text",
                    "resulting-text never-analysed".into(),
                    format!("the session ended gracefully but the text that results from the last {} edit(s) to {uri} was never analysed by the server", q.len()),
                );
                reported = true;
                break;
            }
        }
    }
    // "hence every feature answer": the same session with every didChange replaced by
    // didClose + didOpen of the resulting text must give the same answers
    let clean_end = matches!(rec.end, Some(tokio::sim::ProcessEnd::MainReturned(true))) && rec.hang.is_none();
    if !reported && j.violations.is_empty() && rec.task_panics.is_empty() && clean_end {
        if let Some(fresh_sc) = reopened(sc) {
            let rec2 = runner::run(&fresh_sc, &RunOptions::default());
            j.runs.push(RunStats::of(&rec2));
            let clean2 = matches!(rec2.end, Some(tokio::sim::ProcessEnd::MainReturned(true))) && rec2.hang.is_none() && rec2.task_panics.is_empty();
            if clean2 {
                let a = super::c19::canon_responses(sc, &rec);
                let b = super::c19::canon_responses(sc, &rec2);
                j.probe("feature answers compared with those of a freshly opened document", a.len().saturating_sub(2) as u64);
                j.comparisons += a.len() as u64;
                if let Some(k) = a.iter().zip(b.iter()).position(|(x, y)| x != y) {
                    let id = a[k].0;
                    let m = super::c19::method_of(sc, id).unwrap_or("?");
                    j.violate(
                        ID,
                        "feature-answer",
                        format!("feature-answer {m}"),
                        format!(
                            "request id {id} ({m}): after the edit history the server answers {}, a freshly opened document with the same text gives {}",
                            short(&a[k]),
                            short(&b[k])
                        ),
                    );
                } else if a.len() != b.len() {
                    j.notes.push(format!("other-property=C02 {} answers after the history, {} in the reopen run", a.len(), b.len()));
                }
            } else {
                j.notes.push("other-property=C02 the reopen run of this session ended abnormally".into());
            }
        }
    }
    j.probe("valid→valid steps", vv);
    j.probe("valid→broken steps", vb);
    j.probe("broken→valid steps", bv);
    j.probe("broken→broken steps", bb);
    if !rec.task_panics.is_empty() {
        j.notes.push(format!(
            "other-property=C02 panic: {}",
            rec.task_panics.iter().map(|p| super::c02::site(&p.1)).collect::<Vec<_>>().join("; ")
        ));
    }
    j
}

fn short(r: &super::c19::Resp) -> String {
    let mut t = match (&r.1, r.2) {
        (Some(v), _) => v.to_string(),
        (None, Some(c)) => format!("error {c}"),
        _ => "nothing".into(),
    };
    if t.len() > 300 {
        let mut cut = 300;
        while !t.is_char_boundary(cut) {
            cut -= 1;
        }
        t.truncate(cut);
        t.push('…');
    }
    t
}

/// The same session with every effective didChange replaced by didClose + didOpen of the text
/// that results from it (so every answer comes from a fresh analysis). `None` if the session
/// contains no request behind a change.
pub fn reopened(sc: &Scenario) -> Option<Scenario> {
    let mut replica = crate::h::client::Replica::default();
    let mut script = vec![];
    let mut changed = false;
    let mut asked = false;
    for st in &sc.script {
        match &st.op {
            ClientOp::Change { uri, .. } => {
                if replica.docs.contains_key(uri) {
                    replica.apply(&st.op);
                    script.push(Step::new(ClientOp::Close { uri: uri.clone() }));
                    script.push(Step::new(ClientOp::Open {
                        uri: uri.clone(),
                        text: replica.docs[uri].clone(),
                    }));
                    changed = true;
                }
            }
            other => {
                replica.apply(other);
                if changed && matches!(other, ClientOp::Request { .. }) {
                    asked = true;
                }
                script.push(Step::new(other.clone()));
            }
        }
    }
    if !asked {
        return None;
    }
    Some(Scenario {
        property: sc.property.clone(),
        label: "every change replaced by close + open of the resulting text".into(),
        seed: sc.seed,
        knobs: Knobs::shipped(),
        schedule: Schedule {
            policy: Policy::Fifo,
            seed: 0,
        },
        script,
        segmentation: Segmentation::Frames,
        faults: vec![],
        close_at_end: sc.close_at_end,
    })
}

fn strip_nulls(v: &mut Value) {
    match v {
        Value::Array(a) => a.iter_mut().for_each(strip_nulls),
        Value::Object(o) => {
            o.retain(|_, x| !x.is_null());
            o.values_mut().for_each(strip_nulls);
        }
        _ => {}
    }
}
