//! C08 — the server's copy of a document always equals the client's, positions included.
//!
//! A two-party replication protocol: the client applies an edit to its own text, ships a
//! position-encoded delta, the server re-derives byte offsets against its copy. The simulated
//! client keeps an independent replica (LSP 3.17 position rules) and the history is compared with
//! it after every step: (a) every document the broker computes, (b) every `$/verif/text` answer,
//! (c) every range the server reports, interpreted by the client and fed back as a position.
use crate::h::client::{offset_at, position_at, RxMsg};
use crate::h::core::*;
use crate::h::gen::{self, DocKind};
use crate::h::runner::{self, RunOptions, RunRecord};
use crate::h::scenario::*;
use crate::h::session::Session;
use serde_json::Value;
use tokio::sim::Rng;

pub const ID: &str = "C08";

fn astral_program(rng: &mut Rng) -> String {
    let nl = if rng.chance(300) { "\r\n" } else { "\n" };
    let mut t = format!("proc main() {{{nl}  var counter: int;{nl}  var other: int;{nl}");
    let n = rng.range(1, 5);
    for _ in 0..n {
        let c = *rng.pick(&["𝄞", "😀", "é", "漢", "𐍈", "a"]);
        let stmt = *rng.pick(&[
            "counter := counter + 1;",
            "other := counter;",
            "printi(other);",
            "counter := other * 2; other := 0;",
        ]);
        t.push_str(&format!("  printc('{c}'); {stmt}"));
        if rng.chance(400) {
            t.push_str(" // 😀 →");
        }
        t.push_str(nl);
        if rng.chance(150) {
            t.push_str(nl);
        }
    }
    t.push('}');
    if rng.chance(700) {
        t.push_str(nl);
    }
    t
}

fn initial_text(rng: &mut Rng) -> String {
    match rng.below(10) {
        0..=2 => astral_program(rng),
        3..=5 => gen::document(rng, DocKind::Unicode),
        6 | 7 => gen::document(rng, DocKind::Valid),
        8 => gen::document(rng, DocKind::Broken),
        _ => String::new(),
    }
}

fn ident_positions(text: &str) -> Vec<usize> {
    // byte offsets of ASCII identifier starts (crude, the client's own view)
    let b = text.as_bytes();
    let mut out = vec![];
    let mut i = 0;
    while i < b.len() {
        if b[i].is_ascii_alphabetic() || b[i] == b'_' {
            let s = i;
            while i < b.len() && (b[i].is_ascii_alphanumeric() || b[i] == b'_') {
                i += 1;
            }
            out.push(s + (i - s) / 2);
        } else {
            i += 1;
        }
    }
    out
}

pub fn generate(seed: u64, idx: u64) -> Scenario {
    let mut rng = Rng::derive(seed.wrapping_mul(0x9E37_79B9).wrapping_add(idx), "c08");
    let mut s = Session::new();
    s.handshake(rng.chance(500));
    // (one session in forty works on many documents)
    let ndocs = if rng.chance(25) { *rng.pick(&[6usize, 10, 18, 34]) } else { rng.range(1, 3) };
    let mut uris: Vec<String> = (0..ndocs).map(fresh_uri).collect();
    if rng.chance(200) {
        // documents whose URIs are almost equal (same path, other scheme / query / fragment /
        // letter case): each has its own text
        let near = ["untitled:///w/doc0.spl", "file:///w/doc0.spl?rev=HEAD", "file:///w/doc0.spl#cell1", "file:///w/Doc0.spl", "git:/w/doc0.spl?ref=main", "file://host/w/doc0.spl"];
        uris.truncate(1);
        for _ in 0..rng.range(1, 2) {
            let u = rng.pick(&near).to_string();
            if !uris.contains(&u) {
                uris.push(u);
            }
        }
    }
    for u in &uris {
        let t = initial_text(&mut rng);
        s.open(u, &t);
    }
    let n = rng.range(1, 14);
    for _ in 0..n {
        let uri = rng.pick(&uris).clone();
        let Some(text) = s.text(&uri).cloned() else {
            // closed: reopen
            let t = initial_text(&mut rng);
            s.open(&uri, &t);
            continue;
        };
        match rng.below(12) {
            0..=6 => {
                let mut cur = text.clone();
                let k = batch_size(&mut rng, &[1usize, 1, 1, 2, 3, 5, 1, 1, 2, 3, 0]); // 0: a version bump without content changes
                let mut edits = vec![];
                for _ in 0..k {
                    let e = match rng.below(20) {
                        0..=9 => {
                            let (r, repl) = gen::arbitrary_edit(&mut rng, &cur, false);
                            gen::to_lsp_edit(&cur, r, repl)
                        }
                        10..=13 => {
                            let (r, repl) = gen::structural_edit(&mut rng, &cur);
                            let r = gen::snap(&cur, r.start)..gen::snap(&cur, r.end).max(gen::snap(&cur, r.start));
                            gen::to_lsp_edit(&cur, r, repl)
                        }
                        14..=16 => gen::overshoot_edit(&mut rng, &cur),
                        _ => Edit {
                            range: None,
                            text: match rng.below(5) {
                                0 | 1 => initial_text(&mut rng),
                                2 | 3 => gen::unicode_text(&mut rng, 12),
                                // the same text again (a client re-synchronising)
                                _ => cur.clone(),
                            },
                        },
                    };
                    gen::apply(&mut cur, &e);
                    edits.push(e);
                }
                s.change(&uri, edits);
                if rng.chance(500) {
                    s.probe(&uri);
                }
            }
            7 => {
                s.probe(&uri);
            }
            8 | 9 | 10 => {
                let ids = ident_positions(&text);
                if !ids.is_empty() {
                    let off = *rng.pick(&ids);
                    let (l, c) = position_at(&text, off);
                    let m = if rng.chance(600) { "textDocument/prepareRename" } else { "textDocument/hover" };
                    s.request(m, &uri, l, c);
                }
            }
            _ => {
                s.close(&uri);
            }
        }
    }
    for u in &uris {
        s.probe(u);
    }
    if rng.chance(700) {
        s.shutdown();
        s.exit();
    }
    let mut steps = s.steps;
    // one session in eight offers position encodings in `initialize` (LSP 3.17). Where UTF-8 is
    // among them every position the client sends is one that means the same in both units (no
    // non-ASCII character to its left on the line), so the script is well-formed whatever the
    // server picks; what the server REPORTS is read in the unit it picked.
    if idx % 8 == 5 {
        let enc = [2u8, 3, 2, 1][(idx as usize / 8) % 4];
        if let ClientOp::Initialize { enc: e, .. } = &mut steps[0].op {
            *e = enc;
        }
        if enc >= 2 {
            neutralise(&mut steps);
        }
    }
    let mut sc = Scenario {
        property: ID.into(),
        label: "replication".into(),
        seed,
        knobs: pick_knobs(&mut rng, false),
        schedule: Schedule {
            policy: pick_policy(&mut rng, 500),
            seed: rng.next_u64(),
        },
        script: steps,
        segmentation: Segmentation::Frames,
        faults: vec![],
        close_at_end: true,
    };
    let (_, stream) = runner::session_bytes(&sc);
    let mut ends = vec![];
    let mut off = 0;
    for f in crate::h::client::frames_of(&sc.script) {
        off += f.len();
        ends.push(off);
    }
    sc.segmentation = pick_segmentation(&mut rng, &stream, &ends);
    sc
}

/// Moves every position of the script to the left until no non-ASCII character is to its left on
/// its line: such a position is the same number in UTF-8 and UTF-16 columns.
fn neutralise(steps: &mut [Step]) {
    fn neutral(text: &str, line: u32, character: u32) -> u32 {
        let a = offset_at(text, line, 0);
        let b = offset_at(text, line, u32::MAX);
        match text[a..b].char_indices().find(|(_, c)| !c.is_ascii()) {
            // the line is ASCII up to byte `i`: columns up to `i` mean the same in both units; a
            // column behind the non-ASCII character does not (not even an overshooting one)
            Some((i, _)) => character.min(i as u32),
            None => character,
        }
    }
    let mut replica = crate::h::client::Replica::default();
    for st in steps.iter_mut() {
        match &mut st.op {
            ClientOp::Change { uri, edits } => {
                if let Some(mut t) = replica.docs.get(uri.as_str()).cloned() {
                    for e in edits.iter_mut() {
                        if let Some(r) = e.range.as_mut() {
                            r[1] = neutral(&t, r[0], r[1]);
                            r[3] = neutral(&t, r[2], r[3]);
                        }
                        crate::h::client::apply_edit(&mut t, e);
                    }
                }
            }
            ClientOp::Request { uri, line, character, .. } => {
                if let Some(t) = replica.docs.get(uri.as_str()) {
                    *character = neutral(t, *line, *character);
                }
            }
            _ => {}
        }
        replica.apply(&st.op);
    }
}

/// Features of a change that matter for classifying a divergence.
fn features(before: &str, edits: &[Edit]) -> String {
    let mut f: Vec<&str> = vec![];
    let mut cur = before.to_string();
    for e in edits {
        match e.range {
            None => f.push("rangeless"),
            Some([sl, sc, el, ec]) => {
                let n_lines = position_at(&cur, cur.len()).0;
                let line_len = |l: u32| -> u32 {
                    let a = offset_at(&cur, l, 0);
                    let b = offset_at(&cur, l, u32::MAX);
                    cur[a..b].chars().map(|c| c.len_utf16() as u32).sum()
                };
                if sl > n_lines || el > n_lines {
                    f.push("line-overshoot");
                } else if sc > line_len(sl) || ec > line_len(el) {
                    f.push("column-overshoot");
                }
                let a = offset_at(&cur, sl, sc);
                let b = offset_at(&cur, el, ec);
                let ls = offset_at(&cur, sl, 0);
                let le = offset_at(&cur, el, 0);
                if cur[ls..a.max(ls)].chars().any(|c| c.len_utf16() == 2)
                    || cur[le..b.max(le)].chars().any(|c| c.len_utf16() == 2)
                {
                    f.push("astral-left-of-position");
                }
                let upto = b.max(a).min(cur.len());
                let bytes = cur.as_bytes();
                if (0..upto).any(|i| bytes[i] == b'\r' && bytes.get(i + 1) != Some(&b'\n')) {
                    f.push("lone-cr-before-position");
                }
            }
        }
        crate::h::client::apply_edit(&mut cur, e);
    }
    f.sort_unstable();
    f.dedup();
    if f.is_empty() {
        "plain".into()
    } else {
        f.join("+")
    }
}

fn quote(t: &str) -> String {
    let s: String = t.chars().take(120).collect();
    format!("{:?}{}", s, if t.chars().count() > 120 { "…" } else { "" })
}

struct Want {
    /// (uri, text after the write, features of the write, script index)
    writes: Vec<(String, String, String, usize)>,
    /// id -> expected probe answer
    probes: Vec<(i64, Option<String>)>,
    /// id -> (uri, text at that point, line, character) of range-reporting requests
    ranged: Vec<(i64, String, String, u32, u32)>,
}

fn expectations(sc: &Scenario) -> Want {
    let mut docs: std::collections::BTreeMap<String, String> = Default::default();
    let mut w = Want {
        writes: vec![],
        probes: vec![],
        ranged: vec![],
    };
    for (i, st) in sc.script.iter().enumerate() {
        match &st.op {
            ClientOp::Open { uri, text } => {
                docs.insert(uri.clone(), text.clone());
                w.writes.push((uri.clone(), text.clone(), "open".into(), i));
            }
            ClientOp::Change { uri, edits } => {
                if let Some(t) = docs.get_mut(uri) {
                    let f = features(t, edits);
                    for e in edits {
                        crate::h::client::apply_edit(t, e);
                    }
                    w.writes.push((uri.clone(), t.clone(), f, i));
                }
            }
            ClientOp::Close { uri } => {
                docs.remove(uri);
            }
            ClientOp::TextProbe { id, uri } => w.probes.push((*id as i64, docs.get(uri).cloned())),
            ClientOp::Request {
                id,
                method,
                uri,
                line,
                character,
            } if method == "textDocument/prepareRename" || method == "textDocument/hover" => {
                if let Some(t) = docs.get(uri) {
                    w.ranged.push((*id as i64, uri.clone(), t.clone(), *line, *character));
                }
            }
            ClientOp::Exit => break,
            _ => {}
        }
    }
    w
}

fn range_of(result: &Value) -> Option<[u32; 4]> {
    let r = if result.get("start").is_some() { result } else { result.get("range")? };
    let g = |a: &str, b: &str| r.get(a)?.get(b)?.as_u64().map(|v| v as u32);
    Some([g("start", "line")?, g("start", "character")?, g("end", "line")?, g("end", "character")?])
}

fn healthy(rec: &RunRecord, j: &mut Judgement) -> bool {
    if let Some(e) = &rec.framing_error {
        j.notes.push(format!("other-property=C19 emitted stream is not well-framed: {e}"));
        return false;
    }
    if !rec.task_panics.is_empty() || matches!(rec.end, Some(tokio::sim::ProcessEnd::MainPanicked(_))) {
        let msg = rec
            .task_panics
            .first()
            .map(|p| format!("{} at {}:{}", p.1.message, p.1.file, p.1.line))
            .or_else(|| match &rec.end {
                Some(tokio::sim::ProcessEnd::MainPanicked(p)) => Some(format!("{} at {}:{}", p.message, p.file, p.line)),
                _ => None,
            })
            .unwrap_or_default();
        // normalise numbers so that the note aggregates
        let msg: String = msg.chars().map(|c| if c.is_ascii_digit() { '#' } else { c }).collect();
        j.notes.push(format!("other-property=C02 panic: {msg}"));
        return false;
    }
    if let Some(h) = &rec.hang {
        j.notes.push(format!("other-property=C02/C18 hang: {h:?}"));
        return false;
    }
    true
}

pub fn judge(sc: &Scenario) -> Judgement {
    let mut j = Judgement::default();
    // domain: handshake first
    if !(matches!(sc.script.first().map(|s| &s.op), Some(ClientOp::Initialize { .. }))
        && matches!(sc.script.get(1).map(|s| &s.op), Some(ClientOp::Initialized)))
    {
        return j;
    }
    let opts = RunOptions {
        observe_docs: true,
        ..Default::default()
    };
    let rec = runner::run(sc, &opts);
    j.runs.push(RunStats::of(&rec));
    // the unit of columns: what the handshake agreed on. From here on the client speaks it: the
    // numbers in the script are its positions, and what the server reports is read the same way
    let init_id = sc.script[0].op.request_id().unwrap_or(0) as i64;
    let init_result = rec.responses().iter().find(|r| r.0 == init_id).and_then(|r| r.1.cloned());
    let enc = crate::h::client::negotiated(&sc.script, init_result.as_ref());
    j.probe("position encodings offered in initialize", sc.script.iter().any(|s| matches!(s.op, ClientOp::Initialize { enc: 1..=3, .. })) as u64);
    // (counted only where it happens: the pinned tree never picks UTF-8, which is not a gap of the workload)
    if enc == crate::h::client::Enc::Utf8 {
        j.probe("UTF-8 columns agreed on", 1);
    }
    crate::h::client::with_enc(enc, move || judge_session(sc, rec, j))
}

fn judge_session(sc: &Scenario, rec: RunRecord, mut j: Judgement) -> Judgement {
    let want = expectations(sc);
    // probes of reach
    let all_features: Vec<&str> = want.writes.iter().map(|w| w.2.as_str()).collect();
    j.probe("batched change (>1 content change)", sc.script.iter().filter(|s| matches!(&s.op, ClientOp::Change { edits, .. } if edits.len() > 1)).count() as u64);
    j.probe("range-less change", all_features.iter().filter(|f| f.contains("rangeless")).count() as u64);
    j.probe("astral character left of an edit position", all_features.iter().filter(|f| f.contains("astral")).count() as u64);
    j.probe("overshooting column", all_features.iter().filter(|f| f.contains("column-overshoot")).count() as u64);
    j.probe("overshooting line", all_features.iter().filter(|f| f.contains("line-overshoot")).count() as u64);
    j.probe("lone CR before an edit position", all_features.iter().filter(|f| f.contains("lone-cr")).count() as u64);
    j.probe("close then reopen", sc.script.iter().filter(|s| matches!(s.op, ClientOp::Close { .. })).count() as u64);
    j.probe("CRLF in a document", want.writes.iter().filter(|w| w.1.contains("\r\n")).count() as u64);
    if !healthy(&rec, &mut j) {
        return j;
    }
    // (a) every document the broker computed
    j.comparisons += rec.doc_obs.len() as u64;
    // The documents the broker computes, per URI and in order, must be a subsequence of the texts
    // the client's writes produce that ends with the last one: a broker that applies several
    // queued changes of a document in one go conforms, one that skips, reorders, repeats or
    // garbles a change does not.
    {
        let mut queue: std::collections::BTreeMap<&str, std::collections::VecDeque<usize>> = Default::default();
        for (k, w) in want.writes.iter().enumerate() {
            queue.entry(w.0.as_str()).or_default().push_back(k);
        }
        for o in &rec.doc_obs {
            let q = queue.entry(o.uri.as_str()).or_default();
            match q.iter().position(|&k| want.writes[k].1 == o.doc.text) {
                Some(p) => {
                    q.drain(..=p);
                }
                None => {
                    match q.front() {
                        Some(&k) => {
                            let (uri, text, feat, step) = &want.writes[k];
                            j.violate(
                                ID,
                                "server-copy",
                                format!("server-copy {feat}"),
                                format!(
                                    "after script step {step} ({}) on {uri} the client holds {} but the server holds {}",
                                    sc.script[*step].op.short(),
                                    quote(text),
                                    quote(&o.doc.text)
                                ),
                            );
                        }
                        None => {
                            if want.writes.iter().any(|w| w.0 == o.uri) {
                                j.violate(
                                    ID,
                                    "server-copy",
                                    "server-copy extra-update".into(),
                                    format!("the broker applied an update to {} that the client never made (a change to a closed document must be ignored; no change may be applied twice)", o.uri),
                                );
                            } else {
                                j.notes.push(format!("other-property=C20 an update was applied to {}, a document the client never wrote to", o.uri));
                            }
                        }
                    }
                    return j;
                }
            }
        }
        for (uri, q) in &queue {
            if let Some(&k) = q.back() {
                let (_, _, feat, step) = &want.writes[k];
                j.violate(
                    ID,
                    "server-copy",
                    format!("server-copy missing-update | {feat}"),
                    format!(
                        "the write of script step {step} to {uri} was never applied by the broker ({} updates observed for {} writes)",
                        rec.doc_obs.len(),
                        want.writes.len()
                    ),
                );
                return j;
            }
        }
    }
    // (b) probes
    let got = rec.responses();
    for (id, want_text) in &want.probes {
        if let Some((_, result, code)) = got.iter().find(|g| g.0 == *id) {
            j.comparisons += 1;
            if code.is_some() {
                continue; // refused (after shutdown): lifecycle, not replication
            }
            let got_text = result.and_then(|v| v.as_str().map(|s| s.to_string()));
            if &got_text != want_text {
                j.violate(
                    ID,
                    "probe",
                    "probe".into(),
                    format!("$/verif/text #{id}: client holds {:?}, server answered {:?}", want_text.as_ref().map(|t| quote(t)), got_text.as_ref().map(|t| quote(t))),
                );
                return j;
            }
        }
    }
    // (c0) the ranges of published diagnostics: the byte ranges of a fresh analysis of a text the
    // client wrote, converted with the client's own position arithmetic, must be the published
    // positions. Judged only when the messages identify the version (same messages in the same
    // order) so that content (C01) and ordering (C20) are not what differs.
    {
        use spl_frontend::ErrorContainer;
        let mut by_uri: std::collections::BTreeMap<&str, Vec<&String>> = Default::default();
        for w in &want.writes {
            by_uri.entry(w.0.as_str()).or_default().push(&w.1);
        }
        let mut cache: std::collections::HashMap<&String, Vec<(String, [u32; 4])>> = Default::default();
        for f in &rec.frames {
            let RxMsg::Notification { method, params } = &f.msg else { continue };
            if method != "textDocument/publishDiagnostics" {
                continue;
            }
            let uri = params.get("uri").and_then(|u| u.as_str()).unwrap_or("");
            let Some(diags) = params.get("diagnostics").and_then(|d| d.as_array()) else { continue };
            if diags.is_empty() {
                continue;
            }
            let got: Vec<(String, [u32; 4])> = diags
                .iter()
                .filter_map(|d| Some((d.get("message")?.as_str()?.to_string(), range_of(d)?)))
                .collect();
            let Some(texts) = by_uri.get(uri) else { continue };
            let mut same_messages = false;
            let mut same_ranges = false;
            let mut example: Option<(&String, Vec<(String, [u32; 4])>)> = None;
            for t in texts.iter().rev() {
                let want_d = cache.entry(*t).or_insert_with(|| {
                    tokio::sim::catch(|| {
                        let doc = spl_frontend::AnalyzedSource::new((*t).clone());
                        doc.errors()
                            .iter()
                            .map(|e| {
                                let (sl, sc) = position_at(t, e.0.start.min(t.len()));
                                let (el, ec) = position_at(t, e.0.end.min(t.len()));
                                (e.1.to_string(), [sl, sc, el, ec])
                            })
                            .collect()
                    })
                    .unwrap_or_default()
                });
                if want_d.len() == got.len() && want_d.iter().zip(got.iter()).all(|(a, b)| a.0 == b.0) {
                    same_messages = true;
                    if want_d.iter().zip(got.iter()).all(|(a, b)| a.1 == b.1) {
                        same_ranges = true;
                        break;
                    }
                    if example.is_none() {
                        example = Some((*t, want_d.clone()));
                    }
                }
            }
            if same_messages {
                j.comparisons += 1;
                j.probe("published diagnostic ranges checked against the replica", got.len() as u64);
            }
            if same_messages && !same_ranges {
                let (t, want_d) = example.unwrap();
                let k = want_d.iter().zip(got.iter()).position(|(a, b)| a.1 != b.1).unwrap_or(0);
                let bs = offset_at(t, want_d[k].1[0], want_d[k].1[1]);
                let line_start = offset_at(t, want_d[k].1[0], 0);
                let feature = if t[line_start..bs.max(line_start)].chars().any(|c| c.len_utf16() == 2) {
                    "astral-left-of-position"
                } else if t[..bs].contains('\r') {
                    "cr-before-position"
                } else if !t[..bs].is_ascii() {
                    "non-ascii-before-position"
                } else {
                    "plain"
                };
                j.violate(
                    ID,
                    "diagnostic-range",
                    format!("diagnostic-range {feature}"),
                    format!(
                        "publishDiagnostics for {uri}: diagnostic #{k} ({}) is published at {:?}, in the client's text its range is {:?}{} (text {})",
                        got[k].0.trim(),
                        got[k].1,
                        want_d[k].1,
                        if crate::h::client::current_enc() == crate::h::client::Enc::Utf8 { " - columns in UTF-8 units, as agreed in the handshake" } else { "" },
                        quote(t)
                    ),
                );
                return j;
            }
        }
    }
    // (c1) reported ranges, interpreted with the client's own position arithmetic
    let mut follow: Vec<(usize, ClientOp, [u32; 4])> = vec![]; // (after script index, request, expected range)
    let mut next_id = 100_000;
    for (id, uri, text, line, character) in &want.ranged {
        let Some((_, Some(result), None)) = got.iter().find(|g| g.0 == *id).cloned() else { continue };
        if result.is_null() {
            continue;
        }
        let Some(r) = range_of(result) else { continue };
        j.comparisons += 1;
        let a = offset_at(text, r[0], r[1]);
        let b = offset_at(text, r[2], r[3]);
        let req = offset_at(text, *line, *character);
        let slice = if a <= b { &text[a..b] } else { "" };
        // identifier-like: starts like an identifier and contains no ASCII punctuation or white
        // space (which non-ASCII characters the lexer accepts inside identifiers is C06's business)
        let is_ident = !slice.is_empty()
            && slice.chars().next().map_or(false, |c| c.is_ascii_alphabetic() || c == '_')
            && slice.chars().all(|c| c.is_ascii_alphanumeric() || c == '_' || !c.is_ascii());
        let whole = is_ident;
        // a request position inside a surrogate pair is ill-formed (it can only arise when the
        // minimiser shrinks the text under a fixed request)
        if position_at(text, req) != (*line, *character) && req < offset_at(text, *line, u32::MAX) {
            continue;
        }
        j.probe("reported range checked against the replica", 1);
        let astral_left = {
            let ls = offset_at(text, r[0], 0);
            text[ls..a.max(ls)].chars().any(|c| c.len_utf16() == 2)
        };
        j.probe("reported range with an astral character to its left", astral_left as u64);
        if !(whole && a <= req && req < b) {
            // only ASCII identifiers are judged: the lexer's notion of identifier characters
            // beyond ASCII is C06's business
            let ascii_line = text[offset_at(text, r[0], 0)..offset_at(text, r[0], u32::MAX)].is_ascii();
            if ascii_line || astral_left {
                j.violate(
                    ID,
                    "reported-range",
                    format!("reported-range {}", if astral_left { "astral-left-of-position" } else { "plain" }),
                    format!(
                        "request #{id} at {line}:{character} on {uri}: the server reports range {r:?}, which in the client's text is {:?} (not the identifier under the cursor)",
                        slice
                    ),
                );
                return j;
            }
            continue;
        }
        // (c2) feed the range back: its start, a middle column, its last column
        let idx = sc.script.iter().position(|s| s.op.request_id() == Some(*id as i32)).unwrap();
        let method = match &sc.script[idx].op {
            ClientOp::Request { method, .. } => method.clone(),
            _ => continue,
        };
        // its start, a middle column, its last column — as character boundaries of the replica
        // (a column inside a surrogate pair would be ill-formed)
        let last = a + slice.char_indices().last().map_or(0, |(i, _)| i);
        let mid = crate::h::gen::snap(text, (a + b) / 2).max(a);
        let mut cols: Vec<u32> = [a, mid, last].iter().map(|o| position_at(text, *o).1).collect();
        cols.dedup();
        for c in cols {
            next_id += 1;
            follow.push((
                idx,
                ClientOp::Request {
                    id: next_id,
                    method: method.clone(),
                    uri: uri.clone(),
                    line: r[0],
                    character: c,
                },
                r,
            ));
        }
    }
    if follow.is_empty() {
        return j;
    }
    // phase 2: the same session with the follow-up requests inserted right after their origin
    let mut sc2 = sc.clone();
    sc2.label = format!("{} (round trip phase)", sc.label);
    let mut inserts = follow.clone();
    inserts.sort_by_key(|f| std::cmp::Reverse(f.0));
    for (idx, op, _) in &inserts {
        sc2.script.insert(idx + 1, Step::new(op.clone()));
    }
    // cut offsets refer to the old stream; the round trip only needs some delivery
    sc2.segmentation = match &sc.segmentation {
        Segmentation::Cuts { .. } => Segmentation::Frames,
        s => s.clone(),
    };
    let rec2 = runner::run(&sc2, &RunOptions::default());
    j.runs.push(RunStats::of(&rec2));
    if !healthy(&rec2, &mut j) {
        return j;
    }
    let got2 = rec2.responses();
    for (_, op, want_r) in &follow {
        let id = op.request_id().unwrap() as i64;
        let (line, character) = match op {
            ClientOp::Request { line, character, .. } => (*line, *character),
            _ => (0, 0),
        };
        j.comparisons += 1;
        j.probe("range fed back as a position", 1);
        match got2.iter().find(|g| g.0 == id) {
            Some((_, Some(result), None)) => {
                let back = range_of(result);
                if back != Some(*want_r) {
                    j.violate(
                        ID,
                        "round-trip",
                        "round-trip".into(),
                        format!("the server reported range {want_r:?}; asked again at {line}:{character} (inside that range) it reports {back:?}"),
                    );
                    return j;
                }
            }
            None => {
                // the follow-up was never answered at all: that is a lifecycle / liveness matter
                j.notes.push(format!("other-property=C18/C02 follow-up request #{id} got no response"));
                return j;
            }
            other => {
                j.violate(
                    ID,
                    "round-trip",
                    "round-trip".into(),
                    format!("the server reported range {want_r:?}; asked again at {line}:{character} it answers {other:?}"),
                );
                return j;
            }
        }
    }
    j
}

#[allow(dead_code)]
fn unused(_: &RxMsg) {}
