//! C20 — ordering, read-your-writes and document isolation under load.
//!
//! Open-loop clients pipeline bursts of 40–400 messages (more than both channel capacities) over
//! 2–4 documents whose URIs are distinct, or differ only in scheme / directory; every document
//! content is unique (a fresh `u<N>` identifier per write) so each read is attributable to one
//! write. The history is judged against a sequential model applied in the client's send order.
use crate::h::client::{position_at, RxMsg};
use crate::h::core::*;
use crate::h::runner::{self, RunOptions};
use crate::h::scenario::*;
use crate::h::session::Session;
use serde_json::{json, Value};
use spl_frontend::{AnalyzedSource, ErrorContainer};
use std::collections::BTreeMap;
use tokio::sim::Rng;

pub const ID: &str = "C20";

/// Number of statement lines of a new document: a handful - or, one time in thirty, so many that
/// the document has hundreds of diagnostics (a limit on how many are reported at once must have
/// documents on both sides of it).
fn line_count(rng: &mut Rng, usual_max: usize) -> usize {
    if rng.chance(33) {
        *rng.pick(&[40usize, 160, 300, 1100])
    } else {
        rng.range(0, usual_max)
    }
}

fn doc_text(rng: &mut Rng, counter: &mut u32, lines: usize) -> String {
    let mut t = String::from("proc main() {\n  var v0: int;\n");
    for _ in 0..lines {
        *counter += 1;
        if rng.chance(700) {
            t.push_str(&format!("  v0 := u{};\n", *counter));
        } else {
            t.push_str(&format!("  v0 := {};\n", *counter));
        }
    }
    t.push_str("}\n");
    t
}

/// lines (index, text without terminator) of statement lines `  v0 := X;`
fn stmt_lines(text: &str) -> Vec<(u32, String)> {
    text.lines()
        .enumerate()
        .filter(|(_, l)| l.starts_with("  v0 := "))
        .map(|(i, l)| (i as u32, l.to_string()))
        .collect()
}

fn edit_for(rng: &mut Rng, counter: &mut u32, text: &str) -> Edit {
    let stmts = stmt_lines(text);
    *counter += 1;
    let n = *counter;
    let n_lines = text.lines().count() as u32;
    if stmts.is_empty() {
        // insert a statement before the closing brace (last line)
        return Edit {
            range: Some([n_lines - 1, 0, n_lines - 1, 0]),
            text: format!("  v0 := u{n};\n"),
        };
    }
    let (li, l) = rng.pick(&stmts).clone();
    if rng.chance(60) && (li + 1) < n_lines {
        // same byte length, same number of lines, but the line break moves: `;\n ` -> `; \n`
        // (every position behind it on these two lines changes although no byte offset does)
        *counter -= 1;
        return Edit {
            range: Some([li, l.len() as u32, li + 1, 1]),
            text: " \n".to_string(),
        };
    }
    match rng.below(6) {
        0 | 1 | 2 => {
            // replace exactly the value token
            let start = "  v0 := ".len() as u32;
            let end = (l.len() - 1) as u32;
            Edit {
                range: Some([li, start, li, end]),
                text: if rng.chance(700) { format!("u{n}") } else { format!("{n}") },
            }
        }
        3 => Edit {
            // replace the whole line content
            range: Some([li, 0, li, l.len() as u32]),
            text: format!("  v0 := u{n};"),
        },
        4 => Edit {
            // insert a new line before this one
            range: Some([li, 0, li, 0]),
            text: format!("  v0 := u{n};\n"),
        },
        _ => {
            if stmts.len() > 1 {
                Edit {
                    // delete the line
                    range: Some([li, 0, li + 1, 0]),
                    text: String::new(),
                }
            } else {
                Edit {
                    range: Some([li, 0, li, l.len() as u32]),
                    text: format!("  v0 := u{n};"),
                }
            }
        }
    }
}

pub fn uri_pool(rng: &mut Rng) -> Vec<String> {
    let mut v = vec!["file:///w/a.spl".to_string(), "file:///w/b.spl".to_string()];
    if rng.chance(500) {
        v.push("untitled:///w/a.spl".to_string()); // differs from the first only in scheme
    }
    if rng.chance(400) {
        v.push("file:///v/a.spl".to_string()); // same file name, other directory
    }
    if rng.chance(200) {
        v.push("file://host/w/b.spl".to_string()); // differs only in authority
    }
    // distinct documents whose URIs are "almost" equal: letter case (case-sensitive file
    // systems), query and fragment (notebook cells, revisions), a longer file name
    if rng.chance(400) {
        let near = [
            "file:///w/A.spl",
            "file:///w/a.SPL",
            "file:///W/a.spl",
            "file:///w/a.spl?rev=2",
            "file:///w/a.spl#cell1",
            "file:///w/a.spl.orig",
            "file:///w/b.spl#cell1",
            "file:///w/b.spl#cell2",
        ];
        for _ in 0..rng.range(1, 2) {
            let u = rng.pick(&near).to_string();
            if !v.contains(&u) {
                v.push(u);
            }
        }
    }
    // one session in twenty works on many documents (a table or a cache sized for a handful must
    // have sessions on both sides of its size)
    if rng.chance(50) {
        let k = *rng.pick(&[5usize, 9, 17, 33]);
        for i in 0..k {
            v.push(format!("file:///w/many/m{i}.spl"));
        }
    }
    v
}

pub fn generate(seed: u64, idx: u64) -> Scenario {
    let mut rng = Rng::derive(seed.wrapping_mul(0x9E37_79B9).wrapping_add(idx), "c20");
    let mut s = Session::new();
    let diag = rng.chance(650);
    if rng.chance(500) {
        let (first, stride) = pick_id_scheme(&mut rng);
        s.id_scheme(first, stride);
    } else {
        s.id_scheme(1 + rng.below(3) as i32, 1);
    }
    s.handshake(diag);
    let uris = uri_pool(&mut rng);
    let mut counter = 0u32;
    let burst = match rng.below(4) {
        0 => rng.range(10, 40),
        1 | 2 => rng.range(40, 150),
        _ => rng.range(150, 400),
    };
    // documents go quiet at different times: the last write to a retired document is followed by a
    // long tail of traffic for the others (its last diagnostics must still be the final ones)
    let retire: Vec<usize> = uris
        .iter()
        .enumerate()
        .map(|(i, _)| if i == 0 || rng.chance(600) { usize::MAX } else { rng.range(burst / 8, burst) })
        .collect();
    let stretchy = rng.chance(500);
    let mut notif_only = 0usize;
    while s.steps.len() < burst {
        let ui = rng.below(uris.len());
        let uri = uris[ui].clone();
        let open = s.text(&uri).cloned();
        let mut roll = rng.below(20);
        // stretches of notifications only: a request makes the reader wait for the broker, so the
        // document queue only grows long while no request is in between
        if notif_only == 0 && rng.chance(if stretchy { 40 } else { 0 }) {
            notif_only = rng.range(17, 90);
        }
        if notif_only > 0 {
            notif_only -= 1;
            roll = if open.is_some() { rng.below(8) } else { rng.below(10) };
        }
        if s.steps.len() >= retire[ui] {
            // retired: no more writes, the occasional read
            if rng.chance(800) {
                continue;
            }
            roll = if open.is_some() { 8 } else { 19 };
        }
        match (open, roll) {
            (None, 0..=9) => {
                let lines = line_count(&mut rng, 5);
                let t = doc_text(&mut rng, &mut counter, lines);
                s.open(&uri, &t);
            }
            (None, 10..=12) => {
                // change to a document that is not open: must be ignored
                counter += 1;
                let stray = match rng.below(3) {
                    0 => vec![Edit {
                        range: Some([0, 0, 0, 0]),
                        text: format!("// stray {counter}\n"),
                    }],
                    // a full-text change (no range) must not bring a closed document back either
                    1 => vec![Edit {
                        range: None,
                        text: doc_text(&mut rng, &mut counter, 2),
                    }],
                    _ => vec![
                        Edit {
                            range: None,
                            text: doc_text(&mut rng, &mut counter, 1),
                        },
                        Edit {
                            range: Some([1, 0, 1, 0]),
                            text: format!("  v0 := u{counter};\n"),
                        },
                    ],
                };
                s.change(&uri, stray);
            }
            (None, 13..=15) => {
                // a feature request for a document that is closed (or was never opened)
                let m = *rng.pick(&["textDocument/foldingRange", "textDocument/semanticTokens/full", "textDocument/hover", "textDocument/completion", "textDocument/definition"]);
                s.request(m, &uri, rng.below(4) as u32, 2 + rng.below(8) as u32);
            }
            (None, _) => {
                s.probe(&uri);
            }
            (Some(t), 0..=7) => {
                let mut edits = vec![];
                let mut cur = t.clone();
                let n = *rng.pick(&[1usize, 1, 1, 2, 3]);
                for _ in 0..n {
                    let e = if rng.chance(80) {
                        // the whole text replaced (a change without range)
                        let lines = line_count(&mut rng, 4);
                        Edit {
                            range: None,
                            text: doc_text(&mut rng, &mut counter, lines),
                        }
                    } else {
                        edit_for(&mut rng, &mut counter, &cur)
                    };
                    crate::h::client::apply_edit(&mut cur, &e);
                    edits.push(e);
                }
                s.change(&uri, edits);
            }
            (Some(_), 8..=12) => {
                s.probe(&uri);
            }
            (Some(t), 13..=15) => {
                let m = *rng.pick(&[
                    "textDocument/hover",
                    "textDocument/foldingRange",
                    "textDocument/semanticTokens/full",
                    "textDocument/definition",
                    "textDocument/completion",
                ]);
                let line = rng.below(t.lines().count().max(1)) as u32;
                s.request(m, &uri, line, 2 + rng.below(8) as u32);
            }
            (Some(_), 16) => s.close(&uri),
            (Some(_), 17) => {
                // re-open with new content (allowed by the protocol after close; some clients
                // also send it without close)
                let lines = line_count(&mut rng, 4);
                let t = doc_text(&mut rng, &mut counter, lines);
                if rng.chance(700) {
                    s.close(&uri);
                }
                s.open(&uri, &t);
                if rng.chance(400) {
                    // asked before any change of the reopened document
                    let m = *rng.pick(&["textDocument/foldingRange", "textDocument/semanticTokens/full", "textDocument/hover"]);
                    s.request(m, &uri, 2, 2 + rng.below(8) as u32);
                }
            }
            (Some(_), 18) => {
                s.unknown_request("workspace/unknown");
            }
            (Some(_), _) => {
                if rng.chance(600) {
                    s.client_chatter(rng.below(5));
                } else {
                    s.unknown_notification("$/progress");
                }
            }
        }
    }
    // final probes of every URI: the final state is read back
    for u in &uris {
        s.probe(u);
    }
    match rng.below(4) {
        0 => {}
        1 => {
            s.shutdown();
        }
        _ => {
            s.shutdown();
            s.exit();
        }
    }
    // mostly open loop; occasionally a barrier
    let p = *rng.pick(&[0u32, 0, 0, 20]);
    for st in s.steps.iter_mut().skip(2) {
        if rng.chance(p) {
            st.wait = true;
        }
    }
    let mut sc = Scenario {
        property: ID.into(),
        label: "burst".into(),
        seed,
        knobs: pick_knobs(&mut rng, true),
        schedule: Schedule {
            policy: pick_policy(&mut rng, 3000),
            seed: rng.next_u64(),
        },
        script: s.steps,
        segmentation: match rng.below(4) {
            0 => Segmentation::Frames,
            1 => Segmentation::Coalesced,
            2 => Segmentation::Fixed { k: *rng.pick(&[64usize, 500, 4000]) },
            _ => Segmentation::Fixed { k: *rng.pick(&[7usize, 100, 1000]) },
        },
        faults: vec![],
        close_at_end: true,
    };
    // 1-byte reads over tens of kilobytes only cost time
    if sc.knobs.read_cap > 0 && sc.knobs.read_cap < 7 {
        sc.knobs.read_cap = 21;
    }
    let ns = *rng.pick(&[0usize, 1, 2, 4]);
    for _ in 0..ns {
        sc.faults.push(Fault::StallRx {
            from_segment: rng.below(40),
            ticks: *rng.pick(&[100u64, 2_000, 20_000, 200_000]),
        });
    }
    sc
}

pub fn expected_diagnostics(text: &str) -> Value {
    // fresh analysis of the text; ASCII documents, so columns are the same in every unit
    let doc = AnalyzedSource::new(text.to_string());
    let mut out = vec![];
    for e in doc.errors() {
        let (sl, sc) = position_at(text, e.0.start.min(text.len()));
        let (el, ec) = position_at(text, e.0.end.min(text.len()));
        out.push(json!({
            "range": {"start": {"line": sl, "character": sc}, "end": {"line": el, "character": ec}},
            "severity": 1,
            "message": e.1.to_string(),
        }));
    }
    Value::Array(out)
}

pub fn judge(sc: &Scenario) -> Judgement {
    let mut j = Judgement::default();
    let rec = runner::run(
        sc,
        &RunOptions {
            observe_docs: true,
            ..Default::default()
        },
    );
    j.runs.push(RunStats::of(&rec));
    let c = &rec.summary.counters;
    j.probe("sender blocked on full iotx", c.send_blocked[0]);
    j.probe("sender blocked on full doctx", c.send_blocked[1]);
    j.probe("responder blocked on full stdout", c.stdout_full);
    j.probe("client stalled reading", rec.fired.stall_rx);
    j.probe("burst larger than both channels", (sc.script.len() > 70) as u64);
    let uris: std::collections::BTreeSet<&String> = sc
        .script
        .iter()
        .filter_map(|s| match &s.op {
            ClientOp::Open { uri, .. } => Some(uri),
            _ => None,
        })
        .collect();
    j.probe("two open URIs that differ only in letter case, query or fragment", uris.iter().any(|u| u.contains('#') || u.contains('?') || u.contains("A.spl") || u.contains("SPL") || u.contains("/W/")) as u64);
    j.probe("two open URIs that differ only in scheme", (uris.iter().any(|u| u.starts_with("untitled:")) && uris.iter().any(|u| u.as_str() == "file:///w/a.spl")) as u64);
    j.probe("iotx reached its capacity", (c.max_depth[0] as usize >= sc.knobs.chan_caps[0]) as u64);
    j.probe("doctx reached its capacity", (c.max_depth[1] as usize >= sc.knobs.chan_caps[1]) as u64);

    // domain of this property: a session that starts with the handshake (the minimiser must not
    // drift into lifecycle territory, which is C18's)
    if !(matches!(sc.script.first().map(|s| &s.op), Some(ClientOp::Initialize { .. }))
        && matches!(sc.script.get(1).map(|s| &s.op), Some(ClientOp::Initialized)))
        || sc.script.iter().skip(2).any(|s| matches!(s.op, ClientOp::Initialize { .. } | ClientOp::Initialized))
    {
        return j;
    }
    if let Some(e) = &rec.framing_error {
        j.notes.push(format!("other-property=C19 emitted stream is not well-framed: {e}"));
        return j;
    }
    if !rec.task_panics.is_empty() || matches!(rec.end, Some(tokio::sim::ProcessEnd::MainPanicked(_))) {
        j.notes.push(format!(
            "other-property=C02 panic: {:?} {:?}",
            rec.task_panics.iter().map(|p| p.1.message.clone()).collect::<Vec<_>>(),
            rec.end.as_ref().map(|e| e.status())
        ));
        return j;
    }
    // (g) liveness
    if let Some(h) = &rec.hang {
        j.violate(
            ID,
            "liveness",
            "liveness".into(),
            format!(
                "with the client draining, the burst of {} messages is not served: {h:?} (capacities {:?}, stdout {})",
                sc.script.len(),
                sc.knobs.chan_caps,
                sc.knobs.stdout_cap
            ),
        );
        return j;
    }

    // sequential model in send order
    let mut docs: BTreeMap<String, String> = BTreeMap::new();
    let mut diag = false;
    let mut want_resp: Vec<(i64, Option<Option<String>>)> = vec![]; // (id, Some(probe expectation))
    let mut want_diag: Vec<(String, String)> = vec![]; // (uri, text at that point)
    let mut want_step: Vec<usize> = vec![]; // script index of the write
    let mut closed_probe = 0;
    for (step_idx, st) in sc.script.iter().enumerate() {
        match &st.op {
            ClientOp::Initialize { id, diag: d, .. } => {
                diag = *d;
                want_resp.push((*id as i64, None));
            }
            ClientOp::Open { uri, text } => {
                docs.insert(uri.clone(), text.clone());
                want_diag.push((uri.clone(), text.clone()));
                want_step.push(step_idx);
            }
            ClientOp::Change { uri, edits } => {
                if let Some(t) = docs.get_mut(uri) {
                    for e in edits {
                        crate::h::client::apply_edit(t, e);
                    }
                    want_diag.push((uri.clone(), t.clone()));
                    want_step.push(step_idx);
                }
            }
            ClientOp::Close { uri } => {
                docs.remove(uri);
            }
            ClientOp::TextProbe { id, uri } => {
                if !docs.contains_key(uri) {
                    closed_probe += 1;
                }
                want_resp.push((*id as i64, Some(docs.get(uri).cloned())));
            }
            ClientOp::Exit => break,
            other => {
                if let Some(id) = other.request_id() {
                    want_resp.push((id as i64, None));
                }
            }
        }
    }
    j.probe("probe of a closed / never opened document", closed_probe);

    // (a) order and exactly-once
    let got = rec.responses();
    j.comparisons += got.len() as u64;
    let got_ids: Vec<i64> = got.iter().map(|g| g.0).collect();
    let want_ids: Vec<i64> = want_resp.iter().map(|w| w.0).collect();
    if got_ids.len() < want_ids.len() && want_ids.starts_with(&got_ids) && rec.end.is_some() {
        // nothing reordered, duplicated or dropped in the middle: the process ended before the
        // tail was written. Sessions of this check end gracefully (shutdown/exit or end of input
        // on a frame boundary), so under this load a request went unanswered - which is this
        // property's business too (C18 sees the same clause only for its short sessions)
        j.violate(
            ID,
            "all-answered",
            "all-answered tail-lost".into(),
            format!(
                "the process ended (status {:?}) with {} of {} responses written: the last {} requests of the burst were never answered",
                rec.status(),
                got_ids.len(),
                want_ids.len(),
                want_ids.len() - got_ids.len()
            ),
        );
        return j;
    }
    if got_ids != want_ids {
        let k = got_ids.iter().zip(want_ids.iter()).position(|(a, b)| a != b).unwrap_or(got_ids.len().min(want_ids.len()));
        j.violate(
            ID,
            "response-order",
            "response-order".into(),
            format!(
                "responses are not one per request in request order: position {k}: got id {:?}, expected id {:?} ({} responses for {} requests)",
                got_ids.get(k),
                want_ids.get(k),
                got_ids.len(),
                want_ids.len()
            ),
        );
        return j;
    }
    // (b), (e), (f) read-your-writes / isolation / forgetting
    for ((id, result, code), (_, want)) in got.iter().zip(want_resp.iter()) {
        if let Some(want) = want {
            if let Some(c) = code {
                if !sc.script.iter().any(|s| matches!(s.op, ClientOp::Shutdown { .. })) {
                    j.violate(ID, "read-your-writes", "read-your-writes probe-error".into(), format!("$/verif/text #{id} answered with error {c}"));
                    return j;
                }
                continue; // after shutdown every request is refused (C18)
            }
            let got_text: Option<String> = result.and_then(|v| v.as_str().map(|s| s.to_string()));
            if &got_text != want {
                let kind = match (&got_text, want) {
                    (Some(_), None) => "closed-document-remembered",
                    (None, Some(_)) => "open-document-unknown",
                    _ => "stale-or-foreign-text",
                };
                // which write does the answer come from?
                let origin = got_text.as_ref().and_then(|g| {
                    want_diag.iter().rev().find(|(_, t)| t == g).map(|(u, _)| u.clone())
                });
                j.violate(
                    ID,
                    "read-your-writes",
                    format!("read-your-writes {kind}"),
                    format!(
                        "$/verif/text #{id}: the model (send order) holds {:?}, the server answered {:?}{}",
                        want.as_ref().map(|t| tail(t)),
                        got_text.as_ref().map(|t| tail(t)),
                        match origin {
                            Some(u) => format!(" — that text was written to {u}"),
                            None => String::new(),
                        }
                    ),
                );
                return j;
            }
        }
    }
    // (b') every answer - not only the text probes - is the one a lock-step client gets for the
    // same session: the same script under the reference configuration (closed loop, FIFO,
    // shipped capacities, no stalls) must produce the same responses
    {
        let mut rsc = super::c19::reference_of(sc);
        for st in rsc.script.iter_mut().skip(1) {
            st.wait = true;
        }
        let rref = runner::run(&rsc, &RunOptions::default());
        j.runs.push(RunStats::of(&rref));
        if rref.hang.is_none() && rref.task_panics.is_empty() && rref.status() == rec.status() {
            let a = super::c19::canon_responses(sc, &rref);
            let b = super::c19::canon_responses(sc, &rec);
            j.comparisons += a.len() as u64;
            if a != b {
                let k = a.iter().zip(b.iter()).position(|(x, y)| x != y).unwrap_or(a.len().min(b.len()));
                let method = a.get(k).and_then(|r| super::c19::method_of(sc, r.0)).unwrap_or("?").to_string();
                j.violate(
                    ID,
                    "answers-independent-of-load",
                    format!("answers-independent-of-load {method}"),
                    format!(
                        "response #{k} ({method}) differs between a lock-step run and the pipelined run of the same session: {:?} vs {:?}",
                        a.get(k).map(|r| short(&format!("{r:?}"))),
                        b.get(k).map(|r| short(&format!("{r:?}")))
                    ),
                );
                return j;
            }
        }
    }
    // (b'') a sample of the feature answers against a server that was told nothing but the
    // current content of that one document (read-your-writes, isolation and forgetting for
    // every kind of answer, whatever the server caches): preferably requests for documents that
    // were closed or reopened before
    {
        let mut docs: BTreeMap<String, String> = BTreeMap::new();
        let mut touched: BTreeMap<String, bool> = BTreeMap::new(); // closed or reopened before
        let mut cands: Vec<(bool, i32, String, String, u32, u32, Option<String>)> = vec![];
        for st in &sc.script {
            match &st.op {
                ClientOp::Open { uri, text } => {
                    if docs.contains_key(uri) {
                        touched.insert(uri.clone(), true);
                    }
                    docs.insert(uri.clone(), text.clone());
                }
                ClientOp::Change { uri, edits } => {
                    if let Some(t) = docs.get_mut(uri) {
                        for e in edits {
                            crate::h::client::apply_edit(t, e);
                        }
                    }
                }
                ClientOp::Close { uri } => {
                    docs.remove(uri);
                    touched.insert(uri.clone(), true);
                }
                ClientOp::Request { id, method, uri, line, character } => {
                    cands.push((touched.get(uri).copied().unwrap_or(false), *id, method.clone(), uri.clone(), *line, *character, docs.get(uri).cloned()));
                }
                ClientOp::Shutdown { .. } | ClientOp::Exit => break,
                _ => {}
            }
        }
        let mut pick = tokio::sim::Rng::derive(sc.seed ^ sc.script.len() as u64, "c20-sample");
        let mut chosen = vec![];
        let (mut pref, mut rest): (Vec<_>, Vec<_>) = cands.into_iter().partition(|c| c.0);
        for _ in 0..2 {
            if !pref.is_empty() {
                chosen.push(pref.swap_remove(pick.below(pref.len())));
            }
        }
        if !rest.is_empty() {
            chosen.push(rest.swap_remove(pick.below(rest.len())));
        }
        let answers = super::c19::canon_responses(sc, &rec);
        for (_, id, method, uri, line, character, text) in chosen {
            let Some(got) = answers.iter().find(|r| r.0 == id as i64) else { continue };
            let mut fs = crate::h::session::Session::new();
            // the handshake must not use the id of the request that is being compared
            fs.id_scheme(id ^ 0x4000_0000, 1);
            fs.handshake(false);
            if let Some(t) = &text {
                fs.open(&uri, t);
            }
            fs.id_scheme(id, 1);
            fs.request(&method, &uri, line, character);
            fs.shutdown();
            fs.exit();
            let fsc = Scenario {
                script: fs.steps,
                label: "fresh server, current content only".into(),
                ..super::c19::reference_of(sc)
            };
            let fr = runner::run(&fsc, &RunOptions::default());
            j.runs.push(RunStats::of(&fr));
            if fr.hang.is_some() || !fr.task_panics.is_empty() {
                continue;
            }
            let fresh = super::c19::canon_responses(&fsc, &fr);
            let Some(want) = fresh.iter().find(|r| r.0 == id as i64) else { continue };
            j.comparisons += 1;
            j.probe("feature answer compared with a fresh server that knows the current content only", 1);
            if want != got {
                j.violate(
                    ID,
                    "answer-from-current-content",
                    format!("answer-from-current-content {method} {}", if text.is_some() { "open" } else { "closed" }),
                    format!(
                        "request #{id} ({method}) on {uri} ({}): the server answered {}, a server that was only told the current content answers {}",
                        if text.is_some() { "open" } else { "closed / never opened" },
                        short(&format!("{:?}", (&got.1, got.2))),
                        short(&format!("{:?}", (&want.1, want.2)))
                    ),
                );
                return j;
            }
        }
    }
    // (c), (d) diagnostics
    let mut note_ticks: Vec<u64> = vec![];
    let notes: Vec<(&String, &Value)> = rec
        .frames
        .iter()
        .filter_map(|f| match &f.msg {
            RxMsg::Notification { method, params } if method == "textDocument/publishDiagnostics" => {
                note_ticks.push(f.tick);
                Some((method, params))
            }
            _ => None,
        })
        .collect();
    if !diag {
        if !notes.is_empty() {
            j.violate(
                ID,
                "diagnostics-capability",
                "diagnostics-capability".into(),
                format!("{} publishDiagnostics notifications although the client did not announce the capability", notes.len()),
            );
        }
        return j;
    }
    j.comparisons += notes.len() as u64;
    // The shipped design publishes exactly once per effective write, in write order; when that is
    // what happened every publication is compared with the content at its point. The property
    // itself, however, only demands that publications describe contents the document really had,
    // in order, and that the last one describes the final content - a server that coalesces or
    // clears on close still conforms - so anything else is judged by those clauses only.
    let aligned = notes.len() == want_diag.len()
        && notes
            .iter()
            .zip(want_diag.iter())
            .all(|((_, p), (u, _))| p.get("uri").and_then(Value::as_str) == Some(u.as_str()));
    j.probe("publications aligned one-to-one with the writes", aligned as u64);
    if !aligned {
        relaxed_diagnostics(sc, &rec, &notes, &note_ticks, &want_diag, &want_step, &mut j);
        return j;
    }
    let mut last_per_uri: BTreeMap<&String, usize> = BTreeMap::new();
    for (k, (u, _)) in want_diag.iter().enumerate() {
        last_per_uri.insert(u, k);
    }
    for (k, ((_, params), (uri, text))) in notes.iter().zip(want_diag.iter()).enumerate() {
        let got_uri = params.get("uri").and_then(Value::as_str).unwrap_or("");
        if got_uri != uri {
            j.violate(
                ID,
                "diagnostics-uri",
                "diagnostics-uri".into(),
                format!("publishDiagnostics #{k} is for {got_uri}, the {k}-th effective write was to {uri}"),
            );
            return j;
        }
        let is_last = last_per_uri.get(uri) == Some(&k);
        // every publication is compared on small sessions, the last one per URI always
        if is_last || want_diag.len() <= 60 {
            let want = expected_diagnostics(text);
            let mut gotd = params.get("diagnostics").cloned().unwrap_or(Value::Null);
            strip_nulls(&mut gotd);
            if gotd != want {
                // not what the one-publication-per-write reading expects at this index: judge the
                // whole sequence by the clauses the property states (a coalescing / clearing
                // server can be aligned by count and URI by coincidence)
                relaxed_diagnostics(sc, &rec, &notes, &note_ticks, &want_diag, &want_step, &mut j);
                return j;
            }
        }
    }
    j
}

/// The diagnostics clauses exactly as the property states them (used when publications are not
/// one per write): per document, every publication describes a content the document held, in
/// write order; the last one describes the final content (or clears a closed document).
fn relaxed_diagnostics(
    sc: &Scenario,
    rec: &runner::RunRecord,
    notes: &[(&String, &Value)],
    note_ticks: &[u64],
    want_diag: &[(String, String)],
    want_step: &[usize],
    j: &mut Judgement,
) {
    let mut versions: BTreeMap<&str, Vec<&String>> = BTreeMap::new();
    // tick at which the write that produced a version had been sent completely: a publication can
    // only describe versions written before it arrived
    let mut sent_at: BTreeMap<&str, Vec<u64>> = BTreeMap::new();
    for ((u, t), step) in want_diag.iter().zip(want_step.iter()) {
        versions.entry(u.as_str()).or_default().push(t);
        sent_at.entry(u.as_str()).or_default().push(rec.sent_tick.get(*step).copied().unwrap_or(0));
    }
    let mut open_at_end: BTreeMap<&str, bool> = BTreeMap::new();
    // version indices (per document) behind which the document was closed
    let mut close_after: BTreeMap<&str, Vec<usize>> = BTreeMap::new();
    {
        let mut count: BTreeMap<&str, usize> = BTreeMap::new();
        let mut w = 0;
        for (i, st) in sc.script.iter().enumerate() {
            match &st.op {
                ClientOp::Open { uri, .. } => {
                    open_at_end.insert(uri.as_str(), true);
                }
                ClientOp::Close { uri } => {
                    if open_at_end.get(uri.as_str()).copied().unwrap_or(false) {
                        if let Some(c) = count.get(uri.as_str()) {
                            close_after.entry(uri.as_str()).or_default().push(c - 1);
                        }
                    }
                    open_at_end.insert(uri.as_str(), false);
                }
                ClientOp::Exit => break,
                _ => {}
            }
            while w < want_step.len() && want_step[w] <= i {
                *count.entry(want_diag[w].0.as_str()).or_insert(0) += 1;
                w += 1;
            }
        }
    }
    let mut pubs: BTreeMap<String, Vec<Value>> = BTreeMap::new();
    let mut pub_ticks: BTreeMap<String, Vec<u64>> = BTreeMap::new();
    for (k, (_, p)) in notes.iter().enumerate() {
        let uri = p.get("uri").and_then(Value::as_str).unwrap_or("").to_string();
        let mut d = p.get("diagnostics").cloned().unwrap_or(Value::Null);
        strip_nulls(&mut d);
        pubs.entry(uri.clone()).or_default().push(d);
        pub_ticks.entry(uri).or_default().push(note_ticks.get(k).copied().unwrap_or(u64::MAX));
    }
    for (uri, ps) in &pubs {
        let Some(vs) = versions.get(uri.as_str()) else {
            j.violate(
                ID,
                "diagnostics-uri",
                "diagnostics-uri".into(),
                format!("publishDiagnostics for {uri}, a document that was never written to"),
            );
            return;
        };
        let want: Vec<Value> = vs.iter().map(|t| expected_diagnostics(t)).collect();
        let empty = Value::Array(vec![]);
        let sent = &sent_at[uri.as_str()];
        let ticks = &pub_ticks[uri];
        let bounds: &[usize] = close_after.get(uri.as_str()).map_or(&[], |v| v.as_slice());
        // Is there an assignment publication -> version (non-decreasing, causally possible) or
        // -> "clearing at a close" that explains the whole sequence? Diagnostics of different
        // versions can be equal (e.g. empty), so this is a search, not a greedy scan.
        let mut failed: std::collections::HashSet<(usize, usize)> = Default::default();
        let mut furthest = 0usize;
        fn explain(
            n: usize,
            lo: usize,
            ps: &[Value],
            want: &[Value],
            sent: &[u64],
            ticks: &[u64],
            bounds: &[usize],
            empty: &Value,
            failed: &mut std::collections::HashSet<(usize, usize)>,
            furthest: &mut usize,
        ) -> bool {
            if n == ps.len() {
                return true;
            }
            *furthest = (*furthest).max(n);
            if failed.contains(&(n, lo)) {
                return false;
            }
            let p = &ps[n];
            for i in lo..want.len() {
                if sent[i] <= ticks[n] && &want[i] == p && explain(n + 1, i, ps, want, sent, ticks, bounds, empty, failed, furthest) {
                    return true;
                }
            }
            if p == empty {
                for &k in bounds.iter().filter(|&&k| k >= lo || (lo == 0 && k == 0)) {
                    if explain(n + 1, k + 1, ps, want, sent, ticks, bounds, empty, failed, furthest) {
                        return true;
                    }
                }
            }
            failed.insert((n, lo));
            false
        }
        if !explain(0, 0, ps, &want, sent, ticks, bounds, &empty, &mut failed, &mut furthest) {
            let n = furthest;
            let p = &ps[n];
            // the analysis (C01), not the ordering, is off if this is what the server's own
            // document with the right text yields
            let own = rec.doc_obs.iter().any(|o| {
                &o.uri == uri
                    && vs.iter().any(|t| **t == o.doc.text)
                    && super::c01::diag_json_pub(&o.doc).as_ref() == Some(p)
                    && !want.contains(p)
            });
            if own {
                j.notes.push(format!("other-property=C01 a publication for {uri} differs from the fresh analysis of the same text"));
                continue;
            }
            j.violate(
                ID,
                "diagnostics-content",
                "diagnostics-describe-other-text".into(),
                format!(
                    "the publications for {uri} cannot be explained as descriptions of contents that document held, in order (first inexplicable one: #{n}, stale, foreign or out of order): {}",
                    short(&p.to_string())
                ),
            );
            return;
        }
    }
    for (uri, vs) in &versions {
        let fin = expected_diagnostics(vs.last().unwrap());
        let last = pubs.get(*uri).and_then(|p| p.last());
        let open = open_at_end.get(uri).copied().unwrap_or(false);
        let ok = match last {
            Some(l) => *l == fin || (!open && *l == Value::Array(vec![])),
            None => false,
        };
        if !ok {
            let own = last.map_or(false, |l| {
                rec.doc_obs.iter().rev().find(|o| o.uri == **uri).map_or(false, |o| {
                    &o.doc.text == *vs.last().unwrap() && super::c01::diag_json_pub(&o.doc).as_ref() == Some(l)
                })
            });
            if own {
                j.notes.push(format!("other-property=C01 the last publication for {uri} differs from the fresh analysis of the same text"));
                continue;
            }
            j.violate(
                ID,
                "last-diagnostics",
                "last-diagnostics".into(),
                format!(
                    "the last diagnostics published for {uri} do not describe its final content ({}): got {} expected {}",
                    tail(vs.last().unwrap()),
                    last.map_or("nothing".to_string(), |l| short(&l.to_string())),
                    short(&fin.to_string())
                ),
            );
            return;
        }
    }
}

fn strip_nulls(v: &mut Value) {
    match v {
        Value::Array(a) => a.iter_mut().for_each(strip_nulls),
        Value::Object(o) => {
            o.retain(|_, x| !x.is_null());
            o.values_mut().for_each(strip_nulls);
        }
        _ => {}
    }
}

fn tail(t: &str) -> String {
    let t = t.replace('\n', "\\n");
    if t.len() > 90 {
        format!("…{}", &t[t.len() - 90..])
    } else {
        t
    }
}

fn short(t: &str) -> String {
    if t.chars().count() > 300 {
        format!("{}…", t.chars().take(300).collect::<String>())
    } else {
        t.to_string()
    }
}
