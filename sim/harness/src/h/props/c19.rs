//! C19 — message framing is independent of how the byte stream is chunked.
//!
//! Every scenario is executed twice: under the *reference delivery* (one frame per write,
//! unlimited reads, FIFO schedule, shipped capacities, no faults) and under the scenario's own
//! segmentation / read sizes / delays / short writes / schedule. Oracle:
//!  (a) same responses (ids, results, error codes; in order), same notifications per URI, same
//!      exit status;
//!  (b) every emitted frame is `Content-Length: <byte length>\r\n\r\n<JSON-RPC body>` with
//!      nothing in between, also under short writes and 1-byte client reads;
//!  (c) liveness: closed-loop barriers make the client withhold all further bytes until the
//!      answers to everything sent so far have arrived — a decoder that needs one more byte to
//!      act on a complete frame deadlocks and is reported.
use crate::h::client::RxMsg;
use crate::h::core::*;
use crate::h::gen::{self, DocKind};
use crate::h::runner::{self, session_bytes, RunOptions, RunRecord};
use crate::h::scenario::*;
use crate::h::session::Session;
use serde_json::Value;
use tokio::sim::Rng;

pub const ID: &str = "C19";

fn pad_text(rng: &mut Rng, target: usize) -> String {
    // a large document (body > 10 000 bytes => 5-digit Content-Length), partly non-ASCII
    let mut s = String::new();
    while s.len() < target {
        s.push_str(&gen::valid_program(rng, 3));
        s.push_str("// ✓ größer als 10 000 Bytes 𝄞\n");
    }
    s
}

pub fn script(rng: &mut Rng) -> Vec<Step> {
    let mut s = Session::new();
    let diag = rng.chance(700);
    let odd = rng.chance(150);
    if odd {
        // the frames that only lifecycle oddities produce (their encoding is framing too): a
        // request before initialize, a second initialize, requests behind shutdown
        s.request("textDocument/hover", &fresh_uri(0), 0, 1);
    }
    s.handshake(diag);
    if odd {
        s.init(!diag);
    }
    let ndocs = rng.range(1, 2);
    let mut uris = vec![];
    for d in 0..ndocs {
        let uri = fresh_uri(d);
        let text = match rng.below(10) {
            0 => pad_text(rng, 10_500),
            1 | 2 => gen::document(rng, DocKind::Unicode),
            3 => String::new(),
            _ => {
                let mut t = gen::document(rng, DocKind::Valid);
                if rng.chance(500) {
                    t.push_str("// ünïcödé → 漢 𝄞\n");
                }
                if rng.chance(150) {
                    // text that looks like framing, inside a document
                    t.push_str("// Content-Length: 5\r\n\r\n{\"jsonrpc\":\"2.0\"}\r\n// Content-Type: x\n");
                }
                t
            }
        };
        s.open(&uri, &text);
        uris.push(uri);
    }
    let n = rng.range(1, 8);
    let mut force_wait_next = false;
    for _ in 0..n {
        if std::mem::take(&mut force_wait_next) {
            // the client sends nothing further until the tiny request has been answered
            s.unknown_notification("$/barrier");
            s.steps.last_mut().unwrap().wait = true;
        }
        let uri = rng.pick(&uris).clone();
        let text = s.text(&uri).cloned().unwrap_or_default();
        match rng.below(6) {
            0 | 1 => {
                let (r, repl) = gen::arbitrary_edit(rng, &text, false);
                let e = gen::to_lsp_edit(&text, r, repl);
                s.change(&uri, vec![e]);
            }
            2 => {
                s.probe(&uri);
            }
            3 => {
                if rng.chance(600) {
                    // smallest possible frame (58 bytes), answered before anything else is sent
                    s.unknown_request("x");
                    s.steps.last_mut().unwrap().wait = rng.chance(300);
                    force_wait_next = rng.chance(700);
                    continue;
                }
                s.unknown_request("workspace/somethingUnknown");
            }
            _ => {
                let m = *rng.pick(&METHODS);
                let (l, c) = gen::request_position(rng, &text);
                s.request(m, &uri, l, c);
            }
        }
    }
    if rng.chance(80) {
        // a pipelined burst whose size lies around the sizes a queue or a batch is likely to have
        // (how many answers pile up behind the writer depends on how the requests arrive), then a
        // client that waits for every answer before it goes on
        let k = *rng.pick(&[30usize, 31, 32, 32, 32, 33, 34, 35, 62, 63, 64, 64, 65, 66, 100]);
        // nothing else in flight when the burst starts (half of the time), and requests that need
        // nothing but the reader and the writer (half of the time)
        if rng.chance(500) {
            s.unknown_notification("$/barrier");
            s.steps.last_mut().unwrap().wait = true;
        }
        let plain = rng.chance(500);
        for _ in 0..k {
            match if plain { 3 } else { rng.below(4) } {
                0 => {
                    s.probe(&uris[0]);
                }
                1 => {
                    let text = s.text(&uris[0]).cloned().unwrap_or_default();
                    let (l, c) = gen::request_position(rng, &text);
                    s.request("textDocument/hover", &uris[0], l, c);
                }
                _ => {
                    s.unknown_request("x");
                }
            }
        }
        s.unknown_notification("$/barrier");
        s.steps.last_mut().unwrap().wait = true;
        s.probe(&uris[0]);
    }
    if rng.chance(800) {
        s.shutdown();
        if odd {
            s.request("textDocument/hover", &uris[0], 0, 1);
            s.unknown_request("workspace/äöü→𝄞");
        }
        if rng.chance(800) {
            s.exit();
        }
    }
    // closed-loop barriers on a seeded subset (never on the first message)
    let p = *rng.pick(&[0u32, 150, 400, 1000]);
    for st in s.steps.iter_mut().skip(1) {
        if rng.chance(p) {
            st.wait = true;
        }
    }
    // header blocks: the optional Content-Type header before or after Content-Length
    if rng.chance(400) {
        for st in s.steps.iter_mut() {
            if rng.chance(500) {
                st.hdr = 1 + rng.below(3) as u8;
            }
        }
    }
    s.steps
}

fn with_delivery(rng: &mut Rng, seed: u64, script: Vec<Step>, label: &str) -> Scenario {
    let mut sc = Scenario {
        property: ID.into(),
        label: label.into(),
        seed,
        knobs: Knobs::shipped(),
        schedule: Schedule {
            policy: Policy::Fifo,
            seed: rng.next_u64(),
        },
        script,
        segmentation: Segmentation::Frames,
        faults: vec![],
        close_at_end: true,
    };
    let (_, stream) = session_bytes(&sc);
    let mut ends = vec![];
    let mut off = 0;
    for f in crate::h::client::frames_of(&sc.script) {
        off += f.len();
        ends.push(off);
    }
    sc.knobs = pick_knobs(rng, false);
    sc.schedule.policy = pick_policy(rng, 400);
    sc.segmentation = pick_segmentation(rng, &stream, &ends);
    // delays on a few segments
    let nd = *rng.pick(&[0usize, 0, 1, 3]);
    for _ in 0..nd {
        sc.faults.push(Fault::Delay {
            segment: rng.below(20),
            ticks: rng.range(1, 500) as u64,
        });
    }
    sc
}

pub fn generate(seed: u64, idx: u64) -> Scenario {
    let mut rng = Rng::derive(seed.wrapping_mul(0x9E37_79B9).wrapping_add(idx), "c19");
    let script = script(&mut rng);
    with_delivery(&mut rng, seed, script, "random")
}

/// The corpus for the systematic sweeps: a few sessions derived from the seed.
fn corpus_script(seed: u64, k: u64) -> Vec<Step> {
    let mut rng = Rng::derive(seed.wrapping_add(k * 7919), "c19-corpus");
    if k == 0 {
        // hand-made: every frame kind, non-ASCII text, 2..4 digit lengths
        let mut s = Session::new();
        s.handshake(true);
        let u = fresh_uri(0);
        s.open(&u, "proc main() {\n  // grüße 𝄞\n  printc('ä');\n}\n");
        s.request("textDocument/hover", &u, 0, 6);
        s.steps.last_mut().unwrap().hdr = 1;
        s.change(
            &u,
            vec![Edit {
                range: Some([1, 5, 1, 10]),
                text: "Grüße → 漢".into(),
            }],
        );
        s.steps.last_mut().unwrap().hdr = 2;
        s.probe(&u);
        s.steps.last_mut().unwrap().wait = true;
        s.unknown_request("x/y");
        s.unknown_request("x");
        s.shutdown();
        s.steps.last_mut().unwrap().wait = true;
        s.exit();
        s.steps
    } else {
        script(&mut rng)
    }
}

/// Systematic fault sweep: all two-way splits of the corpus sessions (every byte position), and
/// three-way splits around every header/body boundary. Returns the scenario for sweep index
/// `idx`, or `None` past the end.
pub fn sweep_len(seed: u64, corpus: u64) -> Vec<(u64, usize, usize)> {
    // (corpus index, number of two-way splits, number of three-way splits)
    (0..corpus)
        .map(|k| {
            let sc = sweep_base(seed, k);
            let (_, stream) = session_bytes(&sc);
            let hb = header_body_points(&sc);
            (k, stream.len().saturating_sub(1), hb.len() * 6)
        })
        .collect()
}

fn sweep_base(seed: u64, k: u64) -> Scenario {
    Scenario {
        property: ID.into(),
        label: format!("sweep corpus {k}"),
        seed,
        knobs: Knobs::shipped(),
        schedule: Schedule {
            policy: Policy::Fifo,
            seed: 1,
        },
        script: corpus_script(seed, k),
        segmentation: Segmentation::Frames,
        faults: vec![],
        close_at_end: true,
    }
}

fn header_body_points(sc: &Scenario) -> Vec<(usize, usize)> {
    // (frame start, body start) for each frame
    let mut out = vec![];
    let mut off = 0;
    for f in crate::h::client::frames_of(&sc.script) {
        let hdr = f.windows(4).position(|w| w == b"\r\n\r\n").unwrap() + 4;
        out.push((off, off + hdr));
        off += f.len();
    }
    out
}

pub fn sweep(seed: u64, k: u64, i: usize) -> Option<Scenario> {
    let mut sc = sweep_base(seed, k);
    let (_, stream) = session_bytes(&sc);
    let two = stream.len().saturating_sub(1);
    if i < two {
        sc.segmentation = Segmentation::Cuts { at: vec![i + 1] };
        sc.label = format!("sweep corpus {k} two-way split at {}", i + 1);
        return Some(sc);
    }
    let j = i - two;
    let hb = header_body_points(&sc);
    if j >= hb.len() * 6 {
        return None;
    }
    let (start, body) = hb[j / 6];
    let (a, b) = match j % 6 {
        0 => (start + 15, body),         // inside "Content-Length:" and at header end
        1 => (body.saturating_sub(2), body + 1), // between \r\n\r and \n, then 1 body byte
        2 => (start + 20, start + 21),   // around the 21-byte guard
        3 => (body.saturating_sub(1), body),
        4 => (body, body + 1),
        _ => (start + 1, body.saturating_sub(3)),
    };
    let mut at = vec![a.max(1), b.max(1)];
    at.sort_unstable();
    at.dedup();
    at.retain(|&c| c < stream.len());
    sc.segmentation = Segmentation::Cuts { at: at.clone() };
    sc.label = format!("sweep corpus {k} three-way split at {at:?}");
    Some(sc)
}

pub fn reference_of(sc: &Scenario) -> Scenario {
    Scenario {
        property: sc.property.clone(),
        label: "reference delivery".into(),
        seed: sc.seed,
        knobs: Knobs::shipped(),
        schedule: Schedule {
            policy: Policy::Fifo,
            seed: 0,
        },
        script: sc.script.clone(),
        segmentation: Segmentation::Frames,
        faults: vec![],
        close_at_end: sc.close_at_end,
    }
}

/// Open-loop delivery: the whole stream in one write, no barriers (the same bytes, other timing).
pub fn open_loop_of(sc: &Scenario) -> Scenario {
    let mut o = reference_of(sc);
    o.label = "open-loop coalesced delivery".into();
    o.segmentation = Segmentation::Coalesced;
    for st in &mut o.script {
        st.wait = false;
    }
    o
}

/// Order-insensitive parts of answers are put into a canonical order (completion items come out
/// of a `HashMap` with `RandomState`, the one source of nondeterminism that is not seamed).
pub fn canon(method: Option<&str>, v: &Value) -> Value {
    if method == Some("textDocument/completion") {
        if let Value::Array(items) = v {
            let mut items: Vec<Value> = items.clone();
            items.sort_by_key(|i| i.to_string());
            return Value::Array(items);
        }
    }
    v.clone()
}

pub fn method_of(sc: &Scenario, id: i64) -> Option<&str> {
    sc.script.iter().find_map(|s| match &s.op {
        ClientOp::Request { id: i, method, .. } if *i as i64 == id => Some(method.as_str()),
        _ => None,
    })
}

pub type Resp = (i64, Option<Value>, Option<i64>);

pub fn canon_responses(sc: &Scenario, rec: &RunRecord) -> Vec<Resp> {
    rec.frames
        .iter()
        .filter_map(|f| match &f.msg {
            RxMsg::Response {
                id,
                result,
                error_code,
            } => Some((
                *id,
                result.as_ref().map(|r| canon(method_of(sc, *id), r)),
                *error_code,
            )),
            _ => None,
        })
        .collect()
}

pub fn notifications(rec: &RunRecord) -> Vec<(String, Value)> {
    rec.frames
        .iter()
        .filter_map(|f| match &f.msg {
            RxMsg::Notification { method, params } => Some((method.clone(), params.clone())),
            _ => None,
        })
        .collect()
}

/// last publishDiagnostics per URI (sorted by URI), other notifications in order
pub fn final_publications(rec: &RunRecord) -> Vec<(String, Value)> {
    let mut last: std::collections::BTreeMap<String, Value> = Default::default();
    let mut other = vec![];
    for (m, p) in notifications(rec) {
        if m == "textDocument/publishDiagnostics" {
            let uri = p.get("uri").and_then(Value::as_str).unwrap_or("").to_string();
            last.insert(uri, p.get("diagnostics").cloned().unwrap_or(Value::Null));
        } else {
            other.push((m, p));
        }
    }
    let mut out: Vec<(String, Value)> = last.into_iter().collect();
    out.extend(other);
    out
}

fn abnormal(rec: &RunRecord) -> bool {
    !rec.task_panics.is_empty()
        || !matches!(rec.end, Some(tokio::sim::ProcessEnd::MainReturned(true)))
}

/// Compares delivery `b` against delivery `a` of the same session. `None` = same behaviour.
fn codec_panic(r: &RunRecord) -> bool {
    let in_codec = |p: &tokio::sim::PanicReport| {
        p.frames.iter().any(|f| f.contains("LSCodec") || f.contains("lsp4spl::io::"))
            || p.file.contains("io.rs")
    };
    r.task_panics.iter().any(|(_, p)| in_codec(p))
        || matches!(&r.end, Some(tokio::sim::ProcessEnd::MainPanicked(p)) if in_codec(p))
}

fn foreign_panic(r: &RunRecord) -> bool {
    (!r.task_panics.is_empty() || matches!(r.end, Some(tokio::sim::ProcessEnd::MainPanicked(_)))) && !codec_panic(r)
}

fn differ(sc: &Scenario, a: &RunRecord, b: &RunRecord, j: &mut Judgement) -> Option<(&'static str, String)> {
    if foreign_panic(a) || foreign_panic(b) {
        // a panic outside of the framing code that happens under one delivery only (e.g. under
        // back-pressure) is a crash, not a framing matter
        j.notes.push("other-property=C02 a task panicked outside of the codec in one of the deliveries".into());
        return None;
    }
    match (&a.hang, &b.hang) {
        (None, Some(h)) | (Some(h), None) => {
            let which = if a.hang.is_some() { "the first" } else { "the second" };
            return Some((
                "liveness",
                format!("{which} delivery does not complete although the other does: {h:?}"),
            ));
        }
        _ => {}
    }
    let a0 = canon_responses(sc, a);
    let a1 = canon_responses(sc, b);
    j.comparisons += a0.len() as u64;
    if a0 != a1 {
        let k = a0.iter().zip(a1.iter()).position(|(x, y)| x != y).unwrap_or(a0.len().min(a1.len()));
        return Some((
            "same-responses",
            format!(
                "responses differ at index {k}: {:?} vs {:?} ({} vs {} responses)",
                a0.get(k),
                a1.get(k),
                a0.len(),
                a1.len()
            ),
        ));
    }
    // notifications: what the client ends up knowing - the last publication per document - must
    // be the same; how many intermediate publications there are and how they interleave is a
    // matter of scheduling (C20), not of framing
    let n0 = final_publications(a);
    let n1 = final_publications(b);
    j.comparisons += n0.len() as u64;
    if n0 != n1 {
        let k = n0.iter().zip(n1.iter()).position(|(x, y)| x != y).unwrap_or(n0.len().min(n1.len()));
        return Some((
            "same-notifications",
            format!("the last publishDiagnostics per document differ: {:?} vs {:?}", n0.get(k), n1.get(k)),
        ));
    }
    {
        let (m0, m1) = (notifications(a), notifications(b));
        if m0 != m1 {
            j.notes.push("other-property=C20 the sequence of notifications differs under this delivery's schedule (the final publication per document is the same)".into());
        }
    }
    if a.status() != b.status() || abnormal(b) != abnormal(a) {
        return Some((
            "same-status",
            format!(
                "exit status {:?} (task panics {:?}) vs {:?}",
                b.status(),
                b.task_panics.iter().map(|p| p.1.message.clone()).collect::<Vec<_>>(),
                a.status()
            ),
        ));
    }
    None
}

pub fn judge(sc: &Scenario) -> Judgement {
    let mut j = Judgement::default();
    let opts = RunOptions::default();
    let r0 = runner::run(&reference_of(sc), &opts);
    let r2 = runner::run(&open_loop_of(sc), &opts);
    let r1 = runner::run(sc, &opts);
    for r in [&r0, &r2, &r1] {
        j.runs.push(RunStats::of(r));
    }
    // reach probes
    let c = &r1.summary.counters;
    j.probe("frame split by the segmentation", r1.fired.chunk_split_frames);
    j.probe("several frames in one write", r1.fired.coalesced_frames);
    j.probe("short write on stdout", r1.fired.short_write);
    j.probe("delayed segment", r1.fired.delay);
    j.probe("stdout pipe full", c.stdout_full);
    j.probe("reader found stdin empty", c.stdin_empty);
    j.probe("closed-loop barrier in script", sc.script.iter().filter(|s| s.wait).count() as u64);
    let sizes: Vec<usize> = crate::h::client::frames_of(&sc.script).iter().map(|f| f.len()).collect();
    j.probe("frame with 5-digit Content-Length", sizes.iter().any(|n| *n > 10_030) as u64);
    j.probe("frame shorter than 60 bytes followed by a barrier", sizes.iter().zip(sc.script.iter().skip(1)).any(|(n, nx)| *n < 60 && nx.wait) as u64);
    let non_ascii = session_bytes(sc).1.iter().any(|b| *b >= 0x80);
    j.probe("non-ASCII bytes in the session", non_ascii as u64);

    // (b) framing of everything the server emitted, in all runs
    for (name, r) in [("reference", &r0), ("open-loop", &r2), ("scenario", &r1)] {
        if let Some(e) = &r.framing_error {
            j.violate(ID, "emit-framing", "emit-framing".into(), format!("{name} delivery: {e}"));
        }
    }
    if !j.violations.is_empty() {
        return j;
    }
    if r0.hang.is_some() && r2.hang.is_some() {
        // not a matter of delivery: every delivery hangs
        j.notes.push(format!("other-property=C18/C02 every delivery of this session hangs: {:?}", r0.hang));
        return j;
    }
    // Only when BOTH reference deliveries end abnormally is the session itself the problem (a
    // crash whatever the delivery: C02). If one of them is fine, the difference between the two
    // is exactly what this property is about and is judged below.
    if (r0.hang.is_none() && abnormal(&r0)) && (r2.hang.is_none() && abnormal(&r2)) {
        j.probe("skipped differential: a reference run ended abnormally", 1);
        j.notes.push(format!(
            "other-property=C02 reference run ended abnormally: end={:?} panics={:?}",
            r0.end.as_ref().map(|e| e.status()),
            r0.task_panics.iter().map(|p| p.1.message.clone()).collect::<Vec<_>>()
        ));
        return j;
    }
    // the two reference deliveries (frame-per-write closed loop vs everything-at-once open loop)
    if let Some((clause, d)) = differ(sc, &r0, &r2, &mut j) {
        j.violate(ID, clause, clause.into(), format!("frame-per-write delivery vs open-loop coalesced delivery: {d}"));
        return j;
    }
    // the scenario's delivery
    if let Some((clause, d)) = differ(sc, &r0, &r1, &mut j) {
        j.violate(ID, clause, clause.into(), format!("frame-per-write delivery vs this scenario's delivery: {d}"));
    }
    j
}
