//! C07 — incremental lexing yields the batch token stream and an exact change window
//! (the history-chained part: every `lexer::update` the broker performs during editing sessions,
//! on token sequences that are themselves the result of all earlier updates).
use crate::h::core::*;
use crate::h::gen::{self, DocKind};
use crate::h::runner::{self, LexObs, RunOptions};
use crate::h::scenario::*;
use crate::h::session::Session;
use spl_frontend::tokens::{Token, TokenType};
use tokio::sim::Rng;

pub const ID: &str = "C07";

/// Replacement strings biased towards the adjacencies the look-ahead table is about.
const ADJ: [&str; 40] = [
    "'", "''", "'a", "a'", "//", "/", "// x", "\n", "0", "x", "0x", "x1", "1f", "<", "=", ">", ":",
    "<=", ":=", "i", "f", "if", "els", "e", "whil", "type", "t", "_", "9", " ", "", "", "", "é", "𝄞",
    "ä", "\r\n", "#", "of", "re",
];

const TAILS: [&str; 12] = ["'", "// t", "/", "0", "0x", "<", ":", "whil", "'a", "i", "9", "/ /"];

fn adjacency_edit(rng: &mut Rng, text: &str) -> (std::ops::Range<usize>, String) {
    // edits at distance 0/1/2 from a token end, or at the very end of the text
    let b = text.as_bytes();
    let mut ends = vec![];
    for i in 1..=b.len() {
        let prev_word = b[i - 1].is_ascii_alphanumeric() || b[i - 1] == b'_';
        let next_word = i < b.len() && (b[i].is_ascii_alphanumeric() || b[i] == b'_');
        if (!b[i - 1].is_ascii_whitespace()) && !(prev_word && next_word) {
            ends.push(i);
        }
    }
    let at = if ends.is_empty() || rng.chance(250) {
        text.len()
    } else {
        let e = *rng.pick(&ends);
        let d = rng.below(3);
        if rng.chance(500) {
            e.saturating_sub(d)
        } else {
            (e + d).min(text.len())
        }
    };
    let a = gen::snap(text, at);
    let len = *rng.pick(&[0usize, 0, 0, 1, 1, 2]);
    let b2 = gen::snap(text, (a + len).min(text.len())).max(a);
    let mut repl = rng.pick(&ADJ).to_string();
    if a == b2 && repl.is_empty() {
        repl.push_str(*rng.pick(&["'", "/", "\n", "x"]));
    }
    (a..b2, repl)
}

pub fn generate(seed: u64, idx: u64) -> Scenario {
    let mut rng = Rng::derive(seed.wrapping_mul(0x9E37_79B9).wrapping_add(idx), "c07");
    let mut s = Session::new();
    s.handshake(rng.chance(300));
    let uri = fresh_uri(0);
    let kind = *rng.pick(&[DocKind::Valid, DocKind::Valid, DocKind::Broken, DocKind::Soup, DocKind::Unicode]);
    let mut t = gen::document(&mut rng, kind);
    let tiny = rng.chance(120);
    if tiny {
        // tiny documents and edits at the boundaries of the text
        t = rng.pick(&gen::TINY).to_string();
    }
    if rng.chance(400) {
        // tails whose lexing depends on what is typed next
        t.push_str(*rng.pick(&TAILS));
    }
    s.open(&uri, &t);
    let mut n = rng.range(1, 40);
    if rng.chance(80) {
        // written from nothing, a few characters per notification
        s.close(&uri);
        s.open(&uri, "");
        let size = rng.range(1, 3);
        let program = if rng.chance(700) { gen::valid_program(&mut rng, size) } else { gen::document(&mut rng, DocKind::Unicode) };
        let mut cur = String::new();
        for piece in gen::type_from_scratch(&mut rng, &program, 300) {
            let e = gen::to_lsp_edit(&cur, cur.len()..cur.len(), piece);
            gen::apply(&mut cur, &e);
            s.change(&uri, vec![e]);
        }
        n = rng.below(5);
    }
    let mut hist: Vec<String> = vec![];
    for _ in 0..n {
        let text = s.text(&uri).cloned().unwrap_or_default();
        if rng.chance(50) {
            // close/re-open, emptied and filled again, undo/redo
            gen::lifecycle_steps(&mut rng, &mut s, &uri, &hist);
            continue;
        }
        if hist.last() != Some(&text) && text.len() < 20_000 {
            hist.push(text.clone());
        }
        let mut cur = text.clone();
        let k = batch_size(&mut rng, &[1usize, 1, 1, 1, 2, 4]);
        let k = if rng.chance(15) { 0 } else { k }; // a notification without content changes is legal
        let mut edits = vec![];
        for _ in 0..k {
            let (r, repl) = match rng.below(if tiny { 20 } else { 11 }) {
                10.. => gen::boundary_case_edit(&mut rng, &cur),
                0..=4 => adjacency_edit(&mut rng, &cur),
                5 | 6 => {
                    let small = rng.chance(700);
                    gen::arbitrary_edit(&mut rng, &cur, small)
                }
                7 | 8 => {
                    let (r, repl) = gen::structural_edit(&mut rng, &cur);
                    let a = gen::snap(&cur, r.start);
                    (a..gen::snap(&cur, r.end).max(a), repl)
                }
                _ => {
                    // one keystroke at the end of the text
                    (cur.len()..cur.len(), rng.pick(&ADJ).to_string())
                }
            };
            let e = if rng.chance(20) {
                // the whole text replaced by a change without range
                Edit {
                    range: None,
                    text: match rng.below(4) {
                        0 | 1 => gen::document(&mut rng, kind),
                        2 => format!("{cur} "),
                        // the same text again (a client re-synchronising)
                        _ => cur.clone(),
                    },
                }
            } else {
                gen::to_lsp_edit(&cur, r, repl)
            };
            gen::apply(&mut cur, &e);
            edits.push(e);
        }
        s.change(&uri, edits);
    }
    s.shutdown();
    s.exit();
    Scenario {
        property: ID.into(),
        label: "editing history".into(),
        seed,
        knobs: Knobs {
            chan_caps: pick_caps(&mut rng),
            ..Knobs::shipped()
        },
        schedule: Schedule {
            policy: pick_policy(&mut rng, 500),
            seed: rng.next_u64(),
        },
        script: s.steps,
        segmentation: if rng.chance(500) { Segmentation::Frames } else { Segmentation::Coalesced },
        faults: vec![],
        close_at_end: true,
    }
}

fn kind_name(t: &TokenType) -> String {
    let s = format!("{t:?}");
    s.split(|c| c == '(' || c == ' ').next().unwrap_or("").to_string()
}

fn shifted(tok: &Token, delta: isize) -> Token {
    let sh = |x: usize| (x as isize + delta) as usize;
    let mut t = tok.clone();
    t.range = sh(t.range.start)..sh(t.range.end);
    for e in &mut t.errors {
        e.0 = sh(e.0.start)..sh(e.0.end);
    }
    t
}

/// Checks one observed `lexer::update`; returns (clause, signature, detail) on failure.
pub fn check_update(o: &LexObs) -> Option<(&'static str, String, String)> {
    let fresh = spl_frontend::lexer::lex(&o.text);
    // what kind of adjacency is involved (for the signature): the token kinds right at the change
    let near: Vec<String> = o
        .old
        .iter()
        .filter(|t| t.range.end + 2 >= o.change.range.start && t.range.start <= o.change.range.end + 1)
        .map(|t| kind_name(&t.token_type))
        .take(4)
        .collect();
    if o.new != fresh {
        let k = o.new.iter().zip(fresh.iter()).position(|(a, b)| a != b).unwrap_or(o.new.len().min(fresh.len()));
        let (a, b) = (o.new.get(k), fresh.get(k));
        let what = match (a, b) {
            (Some(a), Some(b)) if a.token_type == b.token_type && a.range == b.range => "errors",
            (Some(a), Some(b)) if a.token_type == b.token_type => "range",
            (Some(_), Some(_)) => "kind",
            _ => "length",
        };
        let kinds = format!(
            "{}→{}",
            a.map_or("-".into(), |t| kind_name(&t.token_type)),
            b.map_or("-".into(), |t| kind_name(&t.token_type))
        );
        return Some((
            "equals-batch",
            format!("equals-batch {what} {kinds} | near {near:?}"),
            format!(
                "after replacing {:?} by {:?} the updated token #{k} is {:?} but a fresh tokenisation of {:?} gives {:?}",
                o.change.range,
                o.change.text,
                a,
                tail(&o.text),
                b
            ),
        ));
    }
    // window truthfulness
    let w = &o.window;
    let (ds, de, ins) = (w.deletion_range.start, w.deletion_range.end, w.insertion_len);
    if ds > de || de > o.old.len() || ds + ins > o.new.len() {
        return Some((
            "window-bounds",
            "window-bounds".into(),
            format!("window {w:?} out of bounds (old {} tokens, new {} tokens)", o.old.len(), o.new.len()),
        ));
    }
    if o.new.len() != o.old.len() - (de - ds) + ins {
        return Some((
            "window-bounds",
            "window-length".into(),
            format!("window {w:?} is inconsistent with the lengths (old {}, new {})", o.old.len(), o.new.len()),
        ));
    }
    if o.new[..ds] != o.old[..ds] {
        let k = o.new[..ds].iter().zip(o.old[..ds].iter()).position(|(a, b)| a != b).unwrap();
        return Some((
            "window-head",
            format!("window-head | near {near:?}"),
            format!("token #{k} before the window {w:?} is not the old token: {:?} vs {:?}", o.new[k], o.old[k]),
        ));
    }
    let delta = o.change.text.len() as isize - o.change.range.len() as isize;
    for (i, (n, old)) in o.new[ds + ins..].iter().zip(o.old[de..].iter()).enumerate() {
        if *n != shifted(old, delta) {
            return Some((
                "window-tail",
                format!("window-tail | near {near:?}"),
                format!(
                    "token #{} after the window {w:?} is not the old token #{} shifted by {delta}: {:?} vs old {:?}",
                    ds + ins + i,
                    de + i,
                    n,
                    old
                ),
            ));
        }
    }
    if !matches!(o.new.last().map(|t| &t.token_type), Some(TokenType::Eof)) {
        return Some(("eof-last", "eof-last".into(), "the last token is not Eof".into()));
    }
    None
}

fn tail(t: &str) -> String {
    let n = t.chars().count();
    if n > 60 {
        format!("…{}", t.chars().skip(n - 60).collect::<String>())
    } else {
        t.to_string()
    }
}

pub fn judge(sc: &Scenario) -> Judgement {
    let mut j = Judgement::default();
    let rec = runner::run(
        sc,
        &RunOptions {
            observe_lex: true,
            ..Default::default()
        },
    );
    j.runs.push(RunStats::of(&rec));
    j.probe("incremental lexer updates observed", rec.lex_obs.len() as u64);
    j.probe("update chained on an earlier update", rec.lex_obs.len().saturating_sub(1) as u64);
    j.probe("edit at the end of the text", rec.lex_obs.iter().filter(|o| o.change.range.end + o.change.text.len() >= o.text.len()).count() as u64);
    j.probe("edit touching a multi-byte character", rec.lex_obs.iter().filter(|o| !o.change.text.is_ascii()).count() as u64);
    j.probe("token with a lexical error in the updated stream", rec.lex_obs.iter().filter(|o| o.new.iter().any(|t| !t.errors.is_empty())).count() as u64);
    j.probe("empty window (nothing re-lexed)", rec.lex_obs.iter().filter(|o| o.window.insertion_len == 0 && o.window.deletion_range.is_empty()).count() as u64);
    // a panic inside lexer::update itself is a C07 matter as well as C02's
    for (_, p) in &rec.task_panics {
        if p.frames.iter().any(|f| f.contains("spl_frontend::lexer")) {
            j.violate(ID, "update-panics", format!("update-panics {}", super::c02::site(p)), format!("lexer::update panicked: {}", p.message));
            return j;
        }
    }
    for o in &rec.lex_obs {
        j.comparisons += 1;
        match tokio::sim::catch(|| check_update(o)) {
            Ok(Some((clause, sig, detail))) => {
                j.violate(ID, clause, sig, detail);
                return j;
            }
            Ok(None) => {}
            Err(p) => {
                j.notes.push(format!("other-property=C02 lexer::lex panicked on a reached text: {}", p.message));
                return j;
            }
        }
    }
    if !rec.task_panics.is_empty() {
        j.notes.push(format!(
            "other-property=C02 panic: {}",
            rec.task_panics.iter().map(|p| super::c02::site(&p.1)).collect::<Vec<_>>().join("; ")
        ));
    }
    j
}
