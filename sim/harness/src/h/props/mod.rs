use crate::h::core::Tier;
use crate::h::driver::PropDef;
use crate::h::scenario::Scenario;

pub mod c01;
pub mod c02;
pub mod c07;
pub mod c08;
pub mod c18;
pub mod c19;
pub mod c20;

/// The committed regression scenarios of a property (`findings/<ID>-*.json`), sorted by file
/// name: seeds for the neighbourhood families of the generators.
pub fn corpus(prop: &str) -> &'static [Scenario] {
    use std::sync::OnceLock;
    static C: OnceLock<std::collections::BTreeMap<String, Vec<Scenario>>> = OnceLock::new();
    let all = C.get_or_init(|| {
        let mut m: std::collections::BTreeMap<String, Vec<Scenario>> = Default::default();
        let dir = crate::h::driver::verif_root_pub().join("findings");
        let mut files: Vec<std::path::PathBuf> = std::fs::read_dir(&dir)
            .map(|d| d.filter_map(|e| e.ok().map(|e| e.path())).collect())
            .unwrap_or_default();
        files.sort();
        for f in files {
            let name = f.file_name().and_then(|n| n.to_str()).unwrap_or("").to_string();
            if !name.ends_with(".json") {
                continue;
            }
            if let Ok(text) = std::fs::read_to_string(&f) {
                if let Ok(sc) = serde_json::from_str::<Scenario>(&text) {
                    m.entry(name[..3].to_string()).or_default().push(sc);
                }
            }
        }
        m
    });
    all.get(prop).map_or(&[], |v| v.as_slice())
}

fn c19_work(seed: u64, tier: Tier, idx: u64) -> Option<Scenario> {
    // sweeps first (all two-way splits of the corpus sessions, three-way splits at header/body
    // boundaries), then seeded random deliveries
    let corpus = if tier == Tier::Quick { 1 } else { 8 };
    let random = if tier == Tier::Quick { 6_000 } else { 150_000 };
    let mut i = idx;
    for (k, two, three) in c19::sweep_len(seed, corpus) {
        let n = (two + three) as u64;
        if i < n {
            return c19::sweep(seed, k, i as usize);
        }
        i -= n;
    }
    if i < random {
        Some(c19::generate(seed, i))
    } else {
        None
    }
}

fn c18_work(seed: u64, tier: Tier, idx: u64) -> Option<Scenario> {
    // sweep: end of input after every byte prefix of the corpus sessions; then seeded scenarios
    let corpus = if tier == Tier::Quick { 2 } else { 40 };
    let random = if tier == Tier::Quick { 150_000 } else { 6_000_000 };
    let mut i = idx;
    for (k, n) in c18::sweep_sizes(seed, corpus) {
        if i < n as u64 {
            return Some(c18::sweep(seed, k, i as usize));
        }
        i -= n as u64;
    }
    // every message sequence up to length 3 (quick) / 5 (thorough) over the lifecycle alphabet
    let max_len = if tier == Tier::Quick { 3 } else { 5 };
    let n = c18::all_sequences_len(max_len);
    if i < n {
        return c18::sequence(seed, i, max_len);
    }
    i -= n;
    if i < random {
        Some(c18::generate(seed, i))
    } else {
        None
    }
}

fn c20_work(seed: u64, tier: Tier, idx: u64) -> Option<Scenario> {
    let random = if tier == Tier::Quick { 6_000 } else { 300_000 };
    if idx < random {
        Some(c20::generate(seed, idx))
    } else {
        None
    }
}

fn c08_work(seed: u64, tier: Tier, idx: u64) -> Option<Scenario> {
    let random = if tier == Tier::Quick { 40_000 } else { 2_000_000 };
    if idx < random {
        Some(c08::generate(seed, idx))
    } else {
        None
    }
}

fn c02_work(seed: u64, tier: Tier, idx: u64) -> Option<Scenario> {
    let random = if tier == Tier::Quick { 12_000 } else { 600_000 };
    // first the nesting ladder on the deployed stack size, then the seeded sessions
    if idx < c02::LADDER {
        return Some(c02::ladder(seed, idx));
    }
    let idx = idx - c02::LADDER;
    // then the position sweep over the half-written program (every second cut in the quick tier)
    let cuts = c02::sweep_docs().len() as u64;
    let stride = if tier == Tier::Quick { 2 } else { 1 };
    if idx < cuts / stride {
        return c02::position_sweep(seed, idx * stride + if tier == Tier::Quick { seed % 2 } else { 0 });
    }
    let idx = idx - cuts / stride;
    if idx < random {
        Some(c02::generate(seed, idx))
    } else {
        None
    }
}

fn c07_work(seed: u64, tier: Tier, idx: u64) -> Option<Scenario> {
    let random = if tier == Tier::Quick { 20_000 } else { 1_000_000 };
    if idx < random {
        Some(c07::generate(seed, idx))
    } else {
        None
    }
}

fn c01_work(seed: u64, tier: Tier, idx: u64) -> Option<Scenario> {
    let random = if tier == Tier::Quick { 20_000 } else { 1_000_000 };
    if idx < random {
        Some(c01::generate(seed, idx))
    } else {
        None
    }
}

static DEFS: &[PropDef] = &[PropDef {
    id: "C01",
    level: "exploration",
    work: c01_work,
    judge: c01::judge,
    rule: "each scenario = one editing session over 1..2 documents (grammar-directed valid SPL, mutated SPL, Unicode text, token soup, tiny documents) with up to 40 didChange steps; 30 % of the sessions are neighbourhoods of the committed regression scenarios (same edits re-targeted by token index onto a text with other trivia in the token gaps, other declarations in front, undo); otherwise structural edits (rename, literal change, insert/delete statement, declaration, parameter, `ref`, comment, white space), typing bursts (one notification per keystroke), arbitrary byte-range replacements, look-ahead probes (trivia + change of the first/second token behind a node end + undo), recovery probes (junk in front of a statement start), boundary-case edits (everything deleted/replaced, offset 0, empty change), batches of 1..5; after every step the broker's AnalyzedSource (observer hook) is compared with AnalyzedSource::new of the same text (tokens, syntax tree incl. attached diagnostics, symbol table, errors()) and the step's publishDiagnostics with the fresh diagnostics; the analysed text must be a text the edits produce; every feature answer is compared with a second run in which each didChange is replaced by didClose + didOpen of the resulting text; steps are classified valid/broken before and after by the fresh analysis; non-trivial = at least one fault/back-pressure/yield fired and a frame was emitted; distinct = distinct interleaving signature",
    assumptions: &[
        "AnalyzedSource::new is the reference (its own correctness is C03/C04, not applicable here)",
        "the token layer is judged by C07; a token difference is reported there and only noted here",
    ],
    wall_cap: (150, 1500),
}, PropDef {
    id: "C07",
    level: "exploration",
    work: c07_work,
    judge: c07::judge,
    rule: "each scenario = one editing session on one document (valid / broken / token-soup / Unicode text, often ending in a tail whose lexing depends on what follows: quote, //, /, 0, 0x, <, :, keyword prefix) with 1..40 didChange notifications of 1..4 content changes, biased to edits at distance 0/1/2 from a token end and at the end of the text with replacement strings from the look-ahead classes; every lexer::update the broker performs (on tokens that are the chained result of all earlier updates; lexer observer hook) is compared with lexer::lex of the new text and its window is checked (head untouched, tail = old tail shifted incl. error ranges, bounds, Eof last); non-trivial = at least one fault/back-pressure/yield fired and a frame was emitted; distinct = distinct interleaving signature",
    assumptions: &[
        "the exhaustive part of the property's quantifier (all texts up to a small length over an alphabet) is bounded enumeration, i.e. model checking, and is not claimed; adjacency classes are sampled, not enumerated",
        "the observed updates are exactly those AnalyzedSource::update performs (observer in spl_frontend::verif)",
    ],
    wall_cap: (150, 1500),
}, PropDef {
    id: "C02",
    level: "exploration",
    work: c02_work,
    judge: c02::judge,
    rule: "first a nesting ladder (10 nesting shapes at depth 48, each session executed in a child process on a 2 MiB stack) and a position sweep (a small program cut behind each of its tokens, all 13 methods at every column of the last lines); then seeded scenarios: each = one complete client session (handshake .. shutdown, exit) over 1..2 documents drawn from four generators (grammar-directed valid SPL, mutated SPL with unterminated literals/comments, token soup, arbitrary Unicode incl. CRLF) with 1..25 steps: didChange batches from the structural / arbitrary / overshooting / full-replacement families, typing bursts (one notification per keystroke, every intermediate state half-typed), close/reopen, copy-pasted declarations and renames to names already in use, notifications for unknown documents, and requests of all 13 methods at the cursor while typing, at token starts/insides/ends, white space, line ends, overshooting columns and lines, for open, closed and never opened documents; delivered under seeded chunking, schedules, channel capacities 1..33, stdout back-pressure and client stalls; non-trivial = at least one fault/back-pressure/yield fired and a frame was emitted; distinct = distinct interleaving signature",
    assumptions: &[
        "optimised build with overflow checks ON (debug_assert off): an arithmetic overflow panics as it does in a debug build of the server - the property counts u32 subtractions among its crash sites; the pinned tree has none that the search reaches",
        "well-formed requests only (valid params for the method, integer ids)",
        "documents up to ~60 lines, nesting <= 8; a single poll running longer than 60 s is reported as non-termination by the watchdog",
        "panic sites are identified by (innermost function of the code under test, message with numbers normalised)",
    ],
    wall_cap: (150, 1500),
}, PropDef {
    id: "C08",
    level: "exploration",
    work: c08_work,
    judge: c08::judge,
    rule: "each scenario = one editing session over 1..3 documents (arbitrary Unicode text with 2-/3-/4-byte characters, CR, LF, CRLF; generated SPL with astral characters left of identifiers on the same line; broken SPL; empty) with 1..14 steps: didChange with 1..5 content changes chained on the client's replica (byte-range replacements converted to UTF-16 positions, structural edits, overshooting columns/lines, range-less full replacements), $/verif/text probes, prepareRename/hover at identifiers, close/reopen; delivered under a seeded segmentation, schedule and capacities; after every step the broker's document (H5 observer), every probe answer, every reported range and the ranges of every published diagnostic are compared with the client's replica; document versions are numbered in three client styles; ranges are fed back as positions in a second run; non-trivial = at least one fault/back-pressure/yield fired and a frame was emitted; distinct = distinct interleaving signature",
    assumptions: &[
        "client replica rules = LSP 3.17: UTF-16 code-unit columns; line ends \\n, \\r\\n, \\r; a column past the end of a line is the end of that line; a line past the last line is the end of the document (vscode-languageserver TextDocument); a range-less change replaces the whole text",
        "positions inside a surrogate pair and reversed ranges are ill-formed and never generated",
        "reported ranges are only judged on lines that are ASCII or where an astral character precedes the range (what counts as an identifier character beyond ASCII is C06's business)",
        "sessions in which a task panics are attributed to C02 and not judged here",
    ],
    wall_cap: (150, 1500),
}, PropDef {
    id: "C20",
    level: "exploration",
    work: c20_work,
    judge: c20::judge,
    rule: "each scenario = one open-loop client session of 10..400 pipelined messages over 2..5 URIs (distinct, differing only in scheme, only in directory, only in authority): didOpen/didChange (1..3 content changes)/didClose/reopen, $/verif/text probes, feature requests (also for closed and just reopened documents), unknown requests/notifications, notification-only stretches and documents that go quiet early, with or without the publishDiagnostics capability; every written content carries a fresh identifier so each read is attributable to one write; seeded schedule policy, channel capacities 1..33, stdout capacity 1 B..1 MiB, read sizes, client stalls of 100..200000 ticks; judged against a sequential map model in send order, a lock-step run of the same session, and - for a sample of the feature answers - a fresh server that only knows the current content of that document; non-trivial = at least one fault/back-pressure/yield fired and a frame was emitted; distinct = distinct interleaving signature",
    assumptions: &[
        "documents and edits are ASCII, in-range and line/token aligned, so that position conversion (C08) and incremental analysis (C01) are not what is being varied; a diagnostics mismatch on a document whose server-side text is right is attributed to C01",
        "the specification is sequential in the client's send order (one client, one FIFO stream), so the history check is linear; no linearizability search is needed",
        "sessions end gracefully (shutdown/exit or end of input on a frame boundary), so every owed response must arrive",
    ],
    wall_cap: (150, 1500),
}, PropDef {
    id: "C18",
    level: "exploration",
    work: c18_work,
    judge: c18::judge,
    rule: "sweeps first: end of input (and, in a second pass, a read error) after every byte prefix of the corpus sessions, and EVERY message sequence up to length 3 (quick) / 5 (thorough) over a 10-letter lifecycle alphabet; then seeded scenarios: each = one client session over the lifecycle alphabet {initialize, initialized, supported request, $/verif/text, unknown request, didOpen/didChange/didClose, unknown notification, shutdown, exit} of length <= 12 in arbitrary order, with a seeded delivery (segmentation, read sizes, schedule, channel capacities 1..33, stdout capacity) and request ids 1,2,3,.. or zero / negative / large / descending / strided, frames with or without the optional Content-Type header, and optionally one fault: end of input or a read error after a byte prefix, client closing its read end, client stalling; judged against the 5-state lifecycle reference model; non-trivial = at least one fault/back-pressure/yield fired and a frame was emitted; distinct = distinct interleaving signature",
    assumptions: &[
        "request ids are integers that fit i32 in 98 % of the sessions; 2 % use string ids (finding C18-K1, repaired by af07891, DESIGN 13.15/13.18)",
        "between the initialize answer and `initialized` the property prescribes nothing but exactly one in-order response per request (the code answers ServerNotInitialized)",
        "`exit` without `shutdown` and end of input inside a frame are abnormal terminations: the written responses must be a prefix of the owed ones; completeness is required after shutdown+exit and after end of input on a frame boundary",
        "promptness is judged in scheduler steps (bound 20000 + 400/frame + 8/byte); tokio's blocking stdin thread is below the seam",
        "after the client closed its read end only termination is checked",
    ],
    wall_cap: (150, 1500),
}, PropDef {
    id: "C19",
    level: "fault_enumeration",
    work: c19_work,
    judge: c19::judge,
    rule: "each scenario = one client session executed under the reference delivery (one frame per write) and under one other delivery (explicit cut list / fixed k-byte writes / coalesced, seeded read sizes, delays, short writes, 1..n-byte client reads, seeded schedule, channel capacities); sweeps enumerate every two-way split (each byte position) of the corpus sessions and three-way splits around every header/body boundary, the rest is seeded; a run counts as non-trivial if at least one fault/back-pressure/yield event fired and the server emitted a frame; distinct = distinct interleaving signature (hash of the sequence of (actor, operation kind) events)",
    assumptions: &[
        "stdio pipes are reliable FIFO byte streams (no loss, duplication, reordering)",
        "tokio's blocking stdin/stdout adapters are replaced by the simulated pipes (stub)",
        "completion items are compared as a multiset (HashMap RandomState order is not seamed)",
        "valid JSON-RPC messages have bodies of at least 30 bytes, so Content-Length has 2..5 digits in the explored sessions",
    ],
    wall_cap: (150, 1500),
}];

pub fn lookup(id: &str) -> Option<&'static PropDef> {
    DEFS.iter().find(|d| d.id.eq_ignore_ascii_case(id))
}
