use crate::h::core::Tier;
use crate::h::driver::PropDef;
use crate::h::scenario::Scenario;

pub mod c19;

fn c19_work(seed: u64, tier: Tier, idx: u64) -> Option<Scenario> {
    // sweeps first (all two-way splits of the corpus sessions, three-way splits at header/body
    // boundaries), then seeded random deliveries
    let corpus = if tier == Tier::Quick { 1 } else { 8 };
    let random = if tier == Tier::Quick { 6_000 } else { 150_000 };
    let mut i = idx;
    for (k, two, three) in c19::sweep_len(seed, corpus) {
        let n = (two + three) as u64;
        if i < n {
            return c19::sweep(seed, k, i as usize);
        }
        i -= n;
    }
    if i < random {
        Some(c19::generate(seed, i))
    } else {
        None
    }
}

static DEFS: &[PropDef] = &[PropDef {
    id: "C19",
    level: "fault_enumeration",
    work: c19_work,
    judge: c19::judge,
    rule: "each scenario = one client session executed under the reference delivery (one frame per write) and under one other delivery (explicit cut list / fixed k-byte writes / coalesced, seeded read sizes, delays, short writes, 1..n-byte client reads, seeded schedule, channel capacities); sweeps enumerate every two-way split (each byte position) of the corpus sessions and three-way splits around every header/body boundary, the rest is seeded; a run counts as non-trivial if at least one fault/back-pressure/yield event fired and the server emitted a frame; distinct = distinct interleaving signature (hash of the sequence of (actor, operation kind) events)",
    assumptions: &[
        "stdio pipes are reliable FIFO byte streams (no loss, duplication, reordering)",
        "tokio's blocking stdin/stdout adapters are replaced by the simulated pipes (stub)",
        "completion items are compared as a multiset (HashMap RandomState order is not seamed)",
        "valid JSON-RPC messages have bodies of at least 30 bytes, so Content-Length has 2..5 digits in the explored sessions",
    ],
    wall_cap: (150, 1500),
}];

pub fn lookup(id: &str) -> Option<&'static PropDef> {
    DEFS.iter().find(|d| d.id.eq_ignore_ascii_case(id))
}
