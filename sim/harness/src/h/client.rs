//! The simulated client: message encoding, an independent frame parser, and the client's own
//! document replica with LSP 3.17 position arithmetic (UTF-16 columns; line ends `\n`, `\r\n`,
//! `\r`; a column past the end of a line is the end of that line; a line past the last line is the
//! end of the document). None of this shares code with the server.
use super::scenario::{ClientOp, Edit, Step};
use serde_json::{json, Value};
use std::collections::BTreeMap;

// ------------------------------------------------------------------------------------------
// encoding
// ------------------------------------------------------------------------------------------

pub fn body_of(op: &ClientOp) -> Value {
    match op {
        ClientOp::Initialize { id, diag, enc } => {
            // the capability that matters in several shapes a real client could send: the server
            // must look at textDocument.publishDiagnostics itself, not at what surrounds it
            let caps = match (*diag, id.rem_euclid(3)) {
                (true, 0) => json!({"textDocument": {"publishDiagnostics": {"relatedInformation": false}}}),
                (true, 1) => json!({"textDocument": {"publishDiagnostics": {}, "hover": {"contentFormat": ["plaintext"]}}, "workspace": {"applyEdit": true}}),
                (true, _) => json!({"textDocument": {"synchronization": {"didSave": true}, "publishDiagnostics": {"versionSupport": true, "tagSupport": {"valueSet": [1, 2]}}}}),
                (false, 0) => json!({}),
                (false, 1) => json!({"textDocument": {"hover": {"contentFormat": ["plaintext"]}, "synchronization": {"didSave": true}}}),
                (false, _) => json!({"textDocument": {}, "workspace": {"applyEdit": true}, "window": {"workDoneProgress": false}}),
            };
            let mut caps = caps;
            match enc {
                1 => caps["general"] = json!({"positionEncodings": ["utf-16"]}),
                2 => caps["general"] = json!({"positionEncodings": ["utf-8", "utf-16"], "markdown": {"parser": "marked"}}),
                3 => caps["general"] = json!({"positionEncodings": ["utf-16", "utf-8"]}),
                _ => {}
            }
            // the optional members a real client sends, in three variations
            match id.rem_euclid(4) {
                0 => json!({"jsonrpc":"2.0","id":id,"method":"initialize",
                       "params":{"processId":null,"rootUri":null,"capabilities":caps}}),
                1 => json!({"jsonrpc":"2.0","id":id,"method":"initialize",
                       "params":{"processId":4711,"clientInfo":{"name":"simclient","version":"1.0"},"locale":"de","rootPath":"/w","rootUri":"file:///w",
                                 "capabilities":caps,"trace":"off","workspaceFolders":[{"uri":"file:///w","name":"w"}]}}),
                2 => json!({"jsonrpc":"2.0","id":id,"method":"initialize",
                       "params":{"processId":1,"rootUri":null,"initializationOptions":{"anything":[1,2,3]},"capabilities":caps,"trace":"verbose","workspaceFolders":null}}),
                _ => json!({"jsonrpc":"2.0","id":id,"method":"initialize","params":{"capabilities":caps}}),
            }
        }
        ClientOp::Initialized => json!({"jsonrpc":"2.0","method":"initialized","params":{}}),
        ClientOp::Open { uri, text } => json!({"jsonrpc":"2.0","method":"textDocument/didOpen",
            "params":{"textDocument":{"uri":uri,"languageId":"spl","version":1,"text":text}}}),
        ClientOp::Change { uri, edits } => {
            let changes: Vec<Value> = edits.iter().map(edit_json).collect();
            json!({"jsonrpc":"2.0","method":"textDocument/didChange",
                   "params":{"textDocument":{"uri":uri,"version":2},"contentChanges":changes}})
        }
        ClientOp::Close { uri } => json!({"jsonrpc":"2.0","method":"textDocument/didClose",
            "params":{"textDocument":{"uri":uri}}}),
        ClientOp::Request {
            id,
            method,
            uri,
            line,
            character,
        } => {
            let td = json!({"uri":uri});
            let pos = json!({"line":line,"character":character});
            let params = match method.as_str() {
                "textDocument/foldingRange" | "textDocument/semanticTokens/full" => {
                    json!({"textDocument":td})
                }
                "textDocument/formatting" => {
                    // options derived from the (otherwise unused) position so that they vary
                    let tab = *character % 9; // 0..8: zero is a legal uinteger
                    json!({"textDocument":td,"options":{"tabSize":tab,"insertSpaces":line % 2 == 0}})
                }
                "textDocument/references" => {
                    json!({"textDocument":td,"position":pos,"context":{"includeDeclaration":(line + character) % 2 == 0}})
                }
                "textDocument/rename" => {
                    // new names of every kind: fresh, in use, keyword, builtin, empty, not a name
                    let names = ["renamed_x", "main", "i", "int", "while", "", "1x", "x y", "ä", "printi", "a"];
                    json!({"textDocument":td,"position":pos,"newName":names[((*line as usize) * 7 + *character as usize) % names.len()]})
                }
                "textDocument/completion" if character % 3 == 0 => {
                    json!({"textDocument":td,"position":pos,"context":{"triggerKind":1}})
                }
                "textDocument/signatureHelp" if character % 3 == 1 => {
                    json!({"textDocument":td,"position":pos,"context":{"triggerKind":2,"triggerCharacter":"(","isRetrigger":false}})
                }
                _ => json!({"textDocument":td,"position":pos}),
            };
            json!({"jsonrpc":"2.0","id":id,"method":method,"params":params})
        }
        ClientOp::TextProbe { id, uri } => {
            json!({"jsonrpc":"2.0","id":id,"method":"$/verif/text","params":{"uri":uri}})
        }
        ClientOp::UnknownRequest { id, method } => {
            if method.len() <= 2 {
                // the smallest request that is still valid JSON-RPC (no params member)
                json!({"jsonrpc":"2.0","id":id,"method":method})
            } else {
                json!({"jsonrpc":"2.0","id":id,"method":method,"params":{}})
            }
        }
        ClientOp::UnknownNotification { method, params } => {
            json!({"jsonrpc":"2.0","method":method,"params":params.clone().unwrap_or_else(|| json!({}))})
        }
        ClientOp::Shutdown { id } => {
            if id.rem_euclid(2) == 0 {
                json!({"jsonrpc":"2.0","id":id,"method":"shutdown","params":null})
            } else {
                json!({"jsonrpc":"2.0","id":id,"method":"shutdown"})
            }
        }
        ClientOp::Exit => json!({"jsonrpc":"2.0","method":"exit"}),
    }
}

fn edit_json(e: &Edit) -> Value {
    match e.range {
        Some([sl, sc, el, ec]) => json!({
            "range":{"start":{"line":sl,"character":sc},"end":{"line":el,"character":ec}},
            "text":e.text}),
        None => json!({"text":e.text}),
    }
}

pub const CONTENT_TYPE: &str = "Content-Type: application/vscode-jsonrpc; charset=utf-8\r\n";

/// The frames of a whole script. Document versions are numbered the way real clients do, in one of
/// three styles chosen by the script itself (so that every caller sees the same bytes): a fresh
/// buffer starts at 1 again when a document is reopened and each change adds 1 (VS Code); numbers
/// keep growing across close/reopen; or a fresh buffer starts at 1 and numbers are skipped (+2).
/// In every style the versions of one open session increase strictly.
pub fn frames_of(script: &[Step]) -> Vec<Vec<u8>> {
    let style = script.len() % 3;
    // every other script also sends the deprecated but still common `rangeLength` member (the
    // length of the replaced range in UTF-16 units, as VS Code does)
    let with_range_length = (script.len() / 3) % 2 == 1
        // (its unit would depend on the server's answer, which is not known when the frames are made)
        && !script.iter().any(|s| matches!(s.op, ClientOp::Initialize { enc: 2 | 3, .. }));
    // the order of the top-level members of every message: sorted (`id` first) in half of the
    // scripts, `id` last / `jsonrpc` last in the others
    let order = (script.len() / 2) % 4;
    let mut versions: BTreeMap<&str, i64> = BTreeMap::new();
    let mut replica = Replica::default();
    script
        .iter()
        .map(|st| {
            let frame = match &st.op {
                ClientOp::Open { uri, .. } => {
                    let v = versions.entry(uri.as_str()).or_insert(0);
                    *v = if style == 1 { *v + 1 } else { 1 };
                    frame_with(st, Some(*v), None, order)
                }
                ClientOp::Change { uri, edits } => {
                    let v = versions.entry(uri.as_str()).or_insert(0);
                    *v += if style == 2 { 2 } else { 1 };
                    let lengths = if with_range_length {
                        // relative to the text as it is before each change of the batch
                        let mut t = replica.docs.get(uri).cloned();
                        Some(
                            edits
                                .iter()
                                .map(|e| {
                                    let n = match (&t, e.range) {
                                        (Some(text), Some([sl, sc, el, ec])) => {
                                            let (a, b) = (offset_at(text, sl, sc), offset_at(text, el, ec));
                                            let (a, b) = (a.min(b), a.max(b));
                                            Some(text[a..b].encode_utf16().count() as u64)
                                        }
                                        _ => None,
                                    };
                                    if let Some(text) = t.as_mut() {
                                        apply_edit(text, e);
                                    }
                                    n
                                })
                                .collect::<Vec<_>>(),
                        )
                    } else {
                        None
                    };
                    frame_with(st, Some(*v), lengths, order)
                }
                _ => frame_with(st, None, None, order),
            };
            replica.apply(&st.op);
            frame
        })
        .collect()
}

/// The JSON text of a message with its top-level members in the given order (JSON objects are
/// unordered: a client may write `id` first, as serialisers that sort keys do, or last, as the
/// examples of the JSON-RPC specification do).
fn json_text(body: &Value, order: usize) -> String {
    let first: &[&str] = match order {
        2 => &["jsonrpc", "method", "params", "id"],
        3 => &["method", "id", "params", "jsonrpc"],
        _ => return serde_json::to_string(body).expect("json"),
    };
    let Some(m) = body.as_object() else { return serde_json::to_string(body).expect("json") };
    let mut keys: Vec<&String> = vec![];
    for k in first {
        if let Some((key, _)) = m.get_key_value(*k) {
            keys.push(key);
        }
    }
    for k in m.keys() {
        if !keys.contains(&k) {
            keys.push(k);
        }
    }
    let members: Vec<String> = keys
        .iter()
        .map(|k| format!("{}:{}", serde_json::to_string(k).expect("json"), serde_json::to_string(&m[k.as_str()]).expect("json")))
        .collect();
    format!("{{{}}}", members.join(","))
}

fn frame_with(st: &Step, version: Option<i64>, range_lengths: Option<Vec<Option<u64>>>, order: usize) -> Vec<u8> {
    let mut body = body_of(&st.op);
    if let Some(v) = version {
        if let Some(td) = body.get_mut("params").and_then(|p| p.get_mut("textDocument")) {
            td["version"] = json!(v);
        }
    }
    if st.sid {
        if let Some(id) = body.get("id").and_then(Value::as_i64) {
            body["id"] = json!(id.to_string());
        }
    }
    if let Some(ls) = range_lengths {
        if let Some(changes) = body.get_mut("params").and_then(|p| p.get_mut("contentChanges")).and_then(|c| c.as_array_mut()) {
            for (c, l) in changes.iter_mut().zip(ls) {
                if let (Some(l), true) = (l, c.get("range").is_some()) {
                    c["rangeLength"] = json!(l);
                }
            }
        }
    }
    // style 3: the body pretty-printed (insignificant white space inside the JSON text)
    // (and a final line feed, which is still part of the counted JSON text)
    let body = if st.hdr == 3 { format!("{}\n", serde_json::to_string_pretty(&body).expect("json")) } else { json_text(&body, order) };
    let mut out = match st.hdr {
        1 => format!("Content-Length: {}\r\n{CONTENT_TYPE}\r\n", body.len()),
        2 => format!("{CONTENT_TYPE}Content-Length: {}\r\n\r\n", body.len()),
        _ => format!("Content-Length: {}\r\n\r\n", body.len()),
    }
    .into_bytes();
    out.extend_from_slice(body.as_bytes());
    out
}

// ------------------------------------------------------------------------------------------
// independent frame parser for the server's output
// ------------------------------------------------------------------------------------------

#[derive(Clone, Debug, PartialEq)]
pub enum RxMsg {
    /// `error == None` ⇒ result
    Response {
        id: i64,
        result: Option<Value>,
        error_code: Option<i64>,
    },
    Notification {
        method: String,
        params: Value,
    },
    /// a well-framed JSON body that is not a valid JSON-RPC response / notification (no or null
    /// id, both or neither of result / error, ...): not a framing matter (C19) but one of
    /// "exactly one well-formed response carrying its id" (C18, C02)
    Malformed {
        why: String,
        body: String,
    },
}

#[derive(Clone, Debug)]
pub struct RxFrame {
    pub msg: RxMsg,
    /// tick at which the last byte of the frame was read by the client
    pub tick: u64,
    /// global event sequence number at that moment
    pub at_rx_bytes: u64,
}

#[derive(Default)]
pub struct FrameParser {
    buf: Vec<u8>,
    pub consumed: u64,
    /// first framing / JSON-RPC error met (everything after it is untrustworthy)
    pub error: Option<String>,
}


impl FrameParser {
    pub fn push(&mut self, bytes: &[u8]) {
        self.buf.extend_from_slice(bytes);
    }

    pub fn leftover(&self) -> usize {
        self.buf.len()
    }

    pub fn leftover_bytes(&self) -> &[u8] {
        &self.buf
    }

    /// Next complete frame, `None` if more bytes are needed (or an error has been recorded).
    pub fn next(&mut self) -> Option<RxMsg> {
        if self.error.is_some() {
            return None;
        }
        // header block per the LSP base protocol: `Name: value\r\n` fields (printable ASCII), an
        // empty line, exactly one Content-Length whose value is a decimal number. Other fields
        // (Content-Type) are allowed. Anything else is a framing error.
        let head_end = self.buf.windows(4).position(|w| w == b"\r\n\r\n");
        let scan = &self.buf[..head_end.map_or(self.buf.len(), |e| e + 2)];
        // even an incomplete header block must look like header fields so far
        let mut ok = true;
        let pieces: Vec<&[u8]> = scan.split(|b| *b == b'\n').collect();
        let npieces = pieces.len();
        for (k, line) in pieces.into_iter().enumerate() {
            // the last piece has no line feed behind it yet
            let complete_line = k + 1 < npieces;
            if complete_line && line.last() != Some(&b'\r') {
                ok = false;
            }
            let line = if line.last() == Some(&b'\r') { &line[..line.len() - 1] } else { line };
            if !complete_line && line.is_empty() {
                continue;
            }
            if line.iter().any(|b| !(0x20..0x7f).contains(b)) {
                ok = false;
            }
            if complete_line {
                match line.iter().position(|b| *b == b':') {
                    Some(0) | None => ok = false,
                    Some(c) => {
                        if line[..c].iter().any(|b| *b == b' ') {
                            ok = false;
                        }
                    }
                }
            } else if k == 0 && !line.is_empty() && !line[0].is_ascii_alphabetic() {
                ok = false;
            }
        }
        if !ok || (head_end.is_none() && self.buf.len() > 512) {
            self.error = Some(format!(
                "malformed header block at output byte {}: {:?}",
                self.consumed,
                String::from_utf8_lossy(&self.buf[..self.buf.len().min(60)])
            ));
            return None;
        }
        let head_end = head_end?;
        let mut lens = vec![];
        for line in self.buf[..head_end].split(|b| *b == b'\n') {
            let line = if line.last() == Some(&b'\r') { &line[..line.len() - 1] } else { line };
            let c = line.iter().position(|b| *b == b':').unwrap_or(0);
            if line[..c].eq_ignore_ascii_case(b"Content-Length") {
                let v = String::from_utf8_lossy(&line[c + 1..]).trim().to_string();
                lens.push(v);
            }
        }
        if lens.len() != 1 || lens[0].is_empty() || !lens[0].bytes().all(|b| b.is_ascii_digit()) {
            self.error = Some(format!(
                "header block at output byte {} must carry exactly one decimal Content-Length: {:?}",
                self.consumed,
                String::from_utf8_lossy(&self.buf[..head_end])
            ));
            return None;
        }
        let len: usize = lens[0].parse().unwrap_or(usize::MAX / 2);
        let start = head_end + 4;
        if self.buf.len() < start.saturating_add(len) {
            return None;
        }
        let body: Vec<u8> = self.buf[start..start + len].to_vec();
        let at = self.consumed;
        self.buf.drain(..start + len);
        self.consumed += (start + len) as u64;
        let v: Value = match serde_json::from_slice(&body) {
            Ok(v) => v,
            Err(e) => {
                self.error = Some(format!(
                    "frame at output byte {at}: body of declared length {len} is not JSON ({e}): {:?}",
                    String::from_utf8_lossy(&body[..body.len().min(80)])
                ));
                return None;
            }
        };
        match classify(&v) {
            Ok(m) => Some(m),
            Err(e) => {
                if v.is_object() {
                    let mut body = v.to_string();
                    if body.len() > 300 {
                        let mut cut = 300;
                        while !body.is_char_boundary(cut) {
                            cut -= 1;
                        }
                        body.truncate(cut);
                    }
                    Some(RxMsg::Malformed { why: e, body })
                } else {
                    self.error = Some(format!("frame at output byte {at}: {e}: {v}"));
                    None
                }
            }
        }
    }
}

fn classify(v: &Value) -> Result<RxMsg, String> {
    let obj = v.as_object().ok_or("body is not a JSON object")?;
    if obj.get("jsonrpc").and_then(Value::as_str) != Some("2.0") {
        return Err("missing jsonrpc:\"2.0\"".into());
    }
    if let Some(id) = obj.get("id") {
        // integer, or the decimal string a client with string ids gets back
        let id = id
            .as_i64()
            .or_else(|| id.as_str().and_then(|t| t.parse::<i64>().ok()))
            .ok_or("response id is not an integer")?;
        let has_result = obj.contains_key("result");
        let has_error = obj.contains_key("error");
        if has_result == has_error {
            return Err("response must have exactly one of result / error".into());
        }
        if obj.contains_key("method") {
            return Err("message has both id+result/error and method".into());
        }
        if has_error {
            let code = obj["error"]
                .get("code")
                .and_then(Value::as_i64)
                .ok_or("error without integer code")?;
            if !obj["error"].get("message").map(Value::is_string).unwrap_or(false) {
                return Err("error without message".into());
            }
            Ok(RxMsg::Response {
                id,
                result: None,
                error_code: Some(code),
            })
        } else {
            Ok(RxMsg::Response {
                id,
                result: Some(obj["result"].clone()),
                error_code: None,
            })
        }
    } else if let Some(m) = obj.get("method").and_then(Value::as_str) {
        Ok(RxMsg::Notification {
            method: m.to_string(),
            params: obj.get("params").cloned().unwrap_or(Value::Null),
        })
    } else {
        Err("neither response nor notification".into())
    }
}

// ------------------------------------------------------------------------------------------
// the client's document replica
// ------------------------------------------------------------------------------------------

/// The unit columns are counted in. UTF-16 unless client and server agreed on UTF-8 in the
/// handshake (LSP 3.17 `general.positionEncodings` / `capabilities.positionEncoding`).
#[derive(Clone, Copy, Debug, PartialEq, Eq)]
pub enum Enc {
    Utf16,
    Utf8,
}

thread_local! {
    static ENC: std::cell::Cell<Enc> = const { std::cell::Cell::new(Enc::Utf16) };
}

/// Runs `f` with the client speaking `enc` (a judge does this for the rest of a session once it
/// has seen the server's `initialize` answer).
pub fn with_enc<R>(enc: Enc, f: impl FnOnce() -> R) -> R {
    struct Restore(Enc);
    impl Drop for Restore {
        fn drop(&mut self) {
            ENC.with(|e| e.set(self.0));
        }
    }
    let _r = Restore(ENC.with(|e| e.replace(enc)));
    f()
}

pub fn current_enc() -> Enc {
    ENC.with(|e| e.get())
}

fn width(c: char) -> u32 {
    match ENC.with(|e| e.get()) {
        Enc::Utf16 => c.len_utf16() as u32,
        Enc::Utf8 => c.len_utf8() as u32,
    }
}

/// What the handshake of this script agrees on, given the server's `initialize` result.
pub fn negotiated(script: &[Step], initialize_result: Option<&Value>) -> Enc {
    let offered = script.iter().find_map(|s| match &s.op {
        ClientOp::Initialize { enc, .. } => Some(*enc),
        _ => None,
    });
    let picked = initialize_result
        .and_then(|r| r.get("capabilities"))
        .and_then(|c| c.get("positionEncoding"))
        .and_then(|e| e.as_str());
    match (offered, picked) {
        // only an encoding the client offered can be agreed on; everything else is UTF-16
        (Some(2 | 3), Some("utf-8")) => Enc::Utf8,
        _ => Enc::Utf16,
    }
}

/// Byte offset of an LSP position in `text` under the LSP 3.17 rules.
pub fn offset_at(text: &str, line: u32, character: u32) -> usize {
    let bytes = text.as_bytes();
    // find the start of the requested line
    let mut cur_line = 0u32;
    let mut i = 0usize;
    while cur_line < line {
        // advance to next line terminator
        loop {
            if i >= bytes.len() {
                return text.len(); // line past the last line: end of document
            }
            match bytes[i] {
                b'\n' => {
                    i += 1;
                    break;
                }
                b'\r' => {
                    i += 1;
                    if i < bytes.len() && bytes[i] == b'\n' {
                        i += 1;
                    }
                    break;
                }
                _ => i += 1,
            }
        }
        cur_line += 1;
    }
    // walk UTF-16 units within the line
    let mut units = 0u32;
    for (off, ch) in text[i..].char_indices() {
        if ch == '\n' || ch == '\r' {
            return i + off; // column past the end: end of line (before the terminator)
        }
        if units >= character {
            return i + off;
        }
        let w = width(ch);
        if units + w > character {
            // position inside a surrogate pair: the generators never produce it; round down
            return i + off;
        }
        units += w;
    }
    text.len()
}

/// LSP position of a byte offset (must be a char boundary) under the same rules.
pub fn position_at(text: &str, offset: usize) -> (u32, u32) {
    let mut line = 0u32;
    let mut units = 0u32;
    let mut prev_cr = false;
    for (i, ch) in text.char_indices() {
        if i >= offset {
            // an offset between \r and \n is not addressable; report the line end (before \r)
            break;
        }
        match ch {
            '\n' => {
                if !prev_cr {
                    line += 1;
                }
                units = 0;
                prev_cr = false;
            }
            '\r' => {
                if offset == i + 1 && text.as_bytes().get(i + 1) == Some(&b'\n') {
                    // between \r and \n: the line end in front of the \r
                    break;
                }
                line += 1;
                units = 0;
                prev_cr = true;
            }
            c => {
                units += width(c);
                prev_cr = false;
            }
        }
    }
    (line, units)
}

/// Apply one content change to the replica.
pub fn apply_edit(text: &mut String, e: &Edit) {
    match e.range {
        None => *text = e.text.clone(),
        Some([sl, sc, el, ec]) => {
            let a = offset_at(text, sl, sc);
            let b = offset_at(text, el, ec);
            let (a, b) = if a <= b { (a, b) } else { (b, a) };
            text.replace_range(a..b, &e.text);
        }
    }
}

/// What the client believes about the documents, updated in send order.
#[derive(Default, Clone, Debug)]
pub struct Replica {
    /// by full URI string
    pub docs: BTreeMap<String, String>,
}

impl Replica {
    pub fn apply(&mut self, op: &ClientOp) {
        match op {
            ClientOp::Open { uri, text } => {
                self.docs.insert(uri.clone(), text.clone());
            }
            ClientOp::Change { uri, edits } => {
                if let Some(t) = self.docs.get_mut(uri) {
                    for e in edits {
                        apply_edit(t, e);
                    }
                }
            }
            ClientOp::Close { uri } => {
                self.docs.remove(uri);
            }
            _ => {}
        }
    }
}

#[cfg(test)]
mod tests {
    use super::*;

    #[test]
    fn positions_roundtrip() {
        let t = "ab\r\ncd\re𝄞f\n\nx";
        for (i, _) in t.char_indices().chain(std::iter::once((t.len(), ' '))) {
            if i > 0 && t.as_bytes()[i - 1] == b'\r' && t.as_bytes().get(i) == Some(&b'\n') {
                continue;
            }
            let (l, c) = position_at(t, i);
            assert_eq!(offset_at(t, l, c), i, "offset {i} -> {l}:{c}");
        }
        assert_eq!(offset_at(t, 0, 99), 2);
        assert_eq!(offset_at(t, 99, 0), t.len());
        assert_eq!(position_at(t, 11), (2, 3)); // after e + astral (2 units)
    }
}
