//! `simcheck` — deterministic simulation checks for LSP4SPL.
//! The server modules below are the repository's own files (symlink farm, see mklinks.sh).
#![recursion_limit = "512"]
pub mod h;

use h::core::Tier;
use h::driver::{self, PropDef};

fn usage() -> ! {
    eprintln!(
        "usage: simcheck check <PROP> [--tier quick|thorough] [--seed N] [--max N]\n       simcheck replay <PROP> <scenario.json>\n       simcheck trace <PROP> <scenario.json>\n       simcheck gen <PROP> <seed> <idx> [--tier T]\n       simcheck hashes <PROP> <seed> <from> <to> [--tier T]"
    );
    std::process::exit(2)
}

fn main() {
    let args: Vec<String> = std::env::args().collect();
    if args.len() < 3 {
        usage();
    }
    let flag = |name: &str| -> Option<String> {
        args.iter().position(|a| a == name).and_then(|i| args.get(i + 1).cloned())
    };
    let tier = match flag("--tier").or_else(|| std::env::var("VERIF_TIER").ok()).as_deref() {
        Some("thorough") => Tier::Thorough,
        _ => Tier::Quick,
    };
    let seed: u64 = flag("--seed")
        .or_else(|| std::env::var("VERIF_SEED").ok())
        .and_then(|s| s.parse().ok())
        .unwrap_or(1);
    let def: &PropDef = match h::props::lookup(&args[2]) {
        Some(d) => d,
        None => {
            eprintln!("HARNESS-ERROR: unknown property {}", args[2]);
            std::process::exit(2);
        }
    };
    if args.iter().any(|a| a == "--isolated") || std::env::var("VERIF_ISOLATED").is_ok() {
        h::core::ISOLATED.store(true, std::sync::atomic::Ordering::Relaxed);
    }
    match args[1].as_str() {
        "check" => {
            let max = flag("--max").and_then(|s| s.parse().ok());
            println!("VERIF_SEED={seed} property={} tier={tier:?}", def.id);
            std::process::exit(driver::run_check(def, tier, seed, max));
        }
        "replay" => {
            let path = std::path::PathBuf::from(args.get(3).cloned().unwrap_or_else(|| usage()));
            let v = driver::replay(def, &path, false);
            if v.iter().any(|v| v.property == def.id) {
                println!("VIOLATION property={} replay={}", def.id, path.display());
                std::process::exit(1);
            }
        }
        "gen" => {
            let s: u64 = args.get(3).and_then(|s| s.parse().ok()).unwrap_or_else(|| usage());
            let i: u64 = args.get(4).and_then(|s| s.parse().ok()).unwrap_or_else(|| usage());
            match (def.work)(s, tier, i) {
                Some(sc) => println!("{}", serde_json::to_string_pretty(&sc).unwrap()),
                None => println!("null"),
            }
        }
        "judge-child" => {
            // judge one scenario on a thread with the scenario's stack size (see c02::judge_in_child)
            let path = std::path::PathBuf::from(args.get(3).cloned().unwrap_or_else(|| usage()));
            let sc = driver::load_scenario(&path);
            let kib = if sc.knobs.stack_kib == 0 { 256 << 10 } else { sc.knobs.stack_kib.max(64) };
            let h = std::thread::Builder::new()
                .stack_size(kib << 10)
                .spawn(move || (def.judge)(&sc))
                .expect("spawn");
            match h.join() {
                Ok(j) => {
                    for v in &j.violations {
                        println!(
                            "CHILD-VIOLATION {}",
                            serde_json::json!({"property": v.property, "clause": v.clause, "signature": v.signature, "detail": v.detail})
                        );
                    }
                    for n in &j.notes {
                        println!("CHILD-NOTE {n}");
                    }
                    println!("CHILD-RUNS {}", j.runs.len());
                }
                Err(_) => std::process::exit(3),
            }
        }
        "stackprobe" => {
            // how much nesting does analysis survive on a stack of the given size (KiB)?
            // usage: simcheck stackprobe C02 <shape> <depth> <stack_kib>
            let shape = args.get(3).cloned().unwrap_or_default();
            let depth: usize = args.get(4).and_then(|s| s.parse().ok()).unwrap_or(100);
            let kib: usize = args.get(5).and_then(|s| s.parse().ok()).unwrap_or(2048);
            let text = match shape.as_str() {
                "paren" => format!("proc main() {{\n  var i: int;\n  i := {}1{};\n}}\n", "(".repeat(depth), ")".repeat(depth)),
                "if" => format!("proc main() {{\n{}{}\n}}\n", "if (1 = 1) {\n".repeat(depth), "}\n".repeat(depth)),
                "array" => format!("type t = {} int;\nproc main() {{}}\n", "array [2] of ".repeat(depth)),
                "index" => format!("proc main() {{\n  var a: int;\n  a{} := 1;\n}}\n", "[0]".repeat(depth)),
                "minus" => format!("proc main() {{\n  var i: int;\n  i := {}1;\n}}\n", "-".repeat(depth)),
                "openparen" => format!("proc main() {{\n  var i: int;\n  i := {}", "(".repeat(depth)),
                _ => usage(),
            };
            let h = std::thread::Builder::new().stack_size(kib << 10).spawn(move || {
                let doc = spl_frontend::AnalyzedSource::new(text);
                use spl_frontend::ErrorContainer;
                doc.errors().len()
            }).unwrap();
            println!("analysed, {} diagnostics", h.join().unwrap());
        }
        "hashes" => {
            // determinism proof support: one line per work item with the full event-log hashes of
            // every simulated run the judge performed and the verdict
            let s: u64 = args.get(3).and_then(|s| s.parse().ok()).unwrap_or_else(|| usage());
            let from: u64 = args.get(4).and_then(|s| s.parse().ok()).unwrap_or_else(|| usage());
            let to: u64 = args.get(5).and_then(|s| s.parse().ok()).unwrap_or_else(|| usage());
            let from_file = std::env::var("VERIF_VIA_JSON").is_ok();
            let workers: u64 = std::env::var("VERIF_WORKERS").ok().and_then(|s| s.parse().ok()).unwrap_or(1);
            let line = move |i: u64| -> Option<String> {
                let mut sc = (def.work)(s, tier, i)?;
                if from_file {
                    // round-trip through the JSON form, as a replay would
                    let text = serde_json::to_string(&sc).unwrap();
                    sc = serde_json::from_str(&text).unwrap();
                }
                let j = (def.judge)(&sc);
                let hs: Vec<String> = j.runs.iter().map(|r| format!("{:016x}/{}", r.full, r.events)).collect();
                let vs: Vec<String> = j.violations.iter().map(|v| format!("{}:{}", v.clause, v.signature)).collect();
                Some(format!("{i} {} {}", hs.join(","), vs.join(";")))
            };
            let mut lines: Vec<(u64, String)> = vec![];
            std::thread::scope(|sc| {
                let hs: Vec<_> = (0..workers)
                    .map(|w| {
                        std::thread::Builder::new()
                            .stack_size(256 << 20)
                            .spawn_scoped(sc, move || {
                                let mut out = vec![];
                                let mut i = from + w;
                                while i < to {
                                    match line(i) {
                                        Some(l) => out.push((i, l)),
                                        None => break,
                                    }
                                    i += workers;
                                }
                                out
                            })
                            .unwrap()
                    })
                    .collect();
                for h in hs {
                    lines.extend(h.join().unwrap());
                }
            });
            lines.sort();
            for (_, l) in lines {
                println!("{l}");
            }
        }
        _ => usage(),
    }
}

// The server's modules come LAST: srv_mods.rs brings macros into scope (`thread_local!` mapped onto
// simulated threads, `println!`/`print!` into the simulated stdout pipe) that must reach the
// server's modules only, not the harness (macro_rules scope is textual: from the definition on).
include!("srv_mods.rs");
