//! `simcheck` — deterministic simulation checks for LSP4SPL.
//! The server modules below are the repository's own files (symlink farm, see mklinks.sh).
include!("srv_mods.rs");
pub mod h;

fn main() {
    use h::scenario::*;
    let uri = "file:///a.spl".to_string();
    let sc = Scenario {
        property: "smoke".into(),
        label: "smoke".into(),
        seed: 1,
        knobs: Knobs { read_cap: 7, ..Knobs::shipped() },
        schedule: Schedule { policy: Policy::Uniform, seed: 3 },
        script: vec![
            Step::new(ClientOp::Initialize { id: 1, diag: true }),
            Step::new(ClientOp::Initialized),
            Step::new(ClientOp::Open { uri: uri.clone(), text: "proc main() { x := 1; }\n".into() }),
            Step::new(ClientOp::Request { id: 2, method: "textDocument/foldingRange".into(), uri: uri.clone(), line: 0, character: 0 }),
            Step::new(ClientOp::TextProbe { id: 3, uri: uri.clone() }),
            Step::new(ClientOp::Shutdown { id: 4 }),
            Step::new(ClientOp::Exit),
        ],
        segmentation: Segmentation::Fixed { k: 5 },
        faults: vec![],
        close_at_end: true,
    };
    println!("{}", serde_json::to_string(&sc).unwrap());
    let rec = h::runner::run(&sc, &h::runner::RunOptions { observe_docs: true, observe_lex: true, keep_events: true });
    for f in &rec.frames { println!("{:?}", f); }
    println!("end={:?} hang={:?} steps={} sig={:x} panics={:?} framing={:?}", rec.end, rec.hang, rec.steps, rec.summary.hash_sig, rec.task_panics, rec.framing_error);
}
