#!/bin/bash
# Regenerates the symlink farm: every file/dir of /repo/lsp4spl/src except main.rs is linked into
# harness/src, and srv_mods.rs declares the root modules main.rs declares.
set -euo pipefail
REPO="${VERIF_REPO:-/repo}"
H="$(cd "$(dirname "$0")" && pwd)/harness/src"
SRC="$REPO/lsp4spl/src"
[ -d "$SRC" ] || { echo "HARNESS-ERROR: $SRC not found"; exit 2; }
# the path dependency on spl_frontend goes through this link (default /repo; VERIF_REPO lets a
# scratch worktree be checked without touching /repo)
ln -sfn "$REPO" "$(cd "$(dirname "$0")" && pwd)/repo_link"
# remove stale links
find "$H" -maxdepth 1 -type l -delete
for f in "$SRC"/*; do
  b="$(basename "$f")"
  [ "$b" = "main.rs" ] && continue
  [ "$b" = "h" ] || [ "$b" = "h.rs" ] || [ "$b" = "srv_mods.rs" ] && { echo "HARNESS-ERROR: name clash $b"; exit 2; }
  ln -s "$f" "$H/$b"
done
# root module declarations, taken from main.rs (with their cfg attributes)
python3 - "$SRC/main.rs" > "$H/srv_mods.rs.new" <<'PY'
import re,sys
lines=open(sys.argv[1]).read().split('\n')
out=[]
for i,l in enumerate(lines):
    m=re.match(r'^(pub(\([a-z]+\))?\s+)?mod\s+([A-Za-z_0-9]+)\s*;',l)
    if m:
        attrs=[]
        j=i-1
        while j>=0 and lines[j].strip().startswith('#['):
            attrs.insert(0,lines[j].strip()); j-=1
        for a in attrs: out.append(a)
        out.append('#[allow(dead_code, unused_imports, clippy::all)]')
        out.append('pub mod %s;'%m.group(3))
# `verif` (the guarded hook module, whose thread-locals belong to the harness) is declared
# before the macro below comes into scope; for every other module `thread_local!` means "one value
# per SIMULATED thread" (simtokio::sim::worker_local)
blocks=[]; cur=[]
for l in out:
    cur.append(l)
    if l.startswith('pub mod '):
        blocks.append(cur); cur=[]
first=[b for b in blocks if b[-1]=='pub mod verif;']
rest=[b for b in blocks if b[-1]!='pub mod verif;']
macro = r'''
#[allow(unused_macros)]
macro_rules! thread_local {
    () => {};
    ($(#[$a:meta])* $v:vis static $n:ident : $t:ty = const $init:block; $($rest:tt)*) => {
        $(#[$a])* $v static $n: ::tokio::sim::worker_local::WorkerLocal<$t> = ::tokio::sim::worker_local::WorkerLocal::new(|| $init);
        thread_local!($($rest)*);
    };
    ($(#[$a:meta])* $v:vis static $n:ident : $t:ty = const $init:block) => {
        $(#[$a])* $v static $n: ::tokio::sim::worker_local::WorkerLocal<$t> = ::tokio::sim::worker_local::WorkerLocal::new(|| $init);
    };
    ($(#[$a:meta])* $v:vis static $n:ident : $t:ty = $init:expr; $($rest:tt)*) => {
        $(#[$a])* $v static $n: ::tokio::sim::worker_local::WorkerLocal<$t> = ::tokio::sim::worker_local::WorkerLocal::new(|| $init);
        thread_local!($($rest)*);
    };
    ($(#[$a:meta])* $v:vis static $n:ident : $t:ty = $init:expr) => {
        $(#[$a])* $v static $n: ::tokio::sim::worker_local::WorkerLocal<$t> = ::tokio::sim::worker_local::WorkerLocal::new(|| $init);
    };
}

// `println!` / `print!` in the server's modules write to the process's standard output, which for
// this server IS the protocol stream: in the simulation the bytes land in the pipe the client reads.
#[allow(unused_macros)]
macro_rules! println {
    () => { ::tokio::sim::process_stdout_write(b"\n") };
    ($($a:tt)*) => { ::tokio::sim::process_stdout_write(format!("{}\n", format_args!($($a)*)).as_bytes()) };
}
#[allow(unused_macros)]
macro_rules! print {
    ($($a:tt)*) => { ::tokio::sim::process_stdout_write(format!($($a)*).as_bytes()) };
}
'''
print('\n'.join(sum(first,[])))
print(macro)
print('\n'.join(sum(rest,[])))
PY
if ! cmp -s "$H/srv_mods.rs.new" "$H/srv_mods.rs" 2>/dev/null; then mv "$H/srv_mods.rs.new" "$H/srv_mods.rs"; else rm "$H/srv_mods.rs.new"; fi
