//! The simulator core: thread-local world, seeded PRNG, executor, simulated stdio.
use std::cell::RefCell;
use std::collections::VecDeque;
use std::future::Future;
use std::pin::Pin;
use std::sync::atomic::{AtomicBool, Ordering};
use std::sync::Arc;
use std::task::{Context, Poll, Wake, Waker};

// ---------------------------------------------------------------------------------------------
// PRNG: SplitMix64 seeding xoshiro256** (implemented here so no `rand` version can drift)
// ---------------------------------------------------------------------------------------------

#[derive(Clone, Debug)]
pub struct Rng {
    s: [u64; 4],
}

fn splitmix(state: &mut u64) -> u64 {
    *state = state.wrapping_add(0x9E37_79B9_7F4A_7C15);
    let mut z = *state;
    z = (z ^ (z >> 30)).wrapping_mul(0xBF58_476D_1CE4_E5B9);
    z = (z ^ (z >> 27)).wrapping_mul(0x94D0_49BB_1331_11EB);
    z ^ (z >> 31)
}

impl Rng {
    pub fn new(seed: u64) -> Self {
        let mut st = seed;
        let s = [
            splitmix(&mut st),
            splitmix(&mut st),
            splitmix(&mut st),
            splitmix(&mut st),
        ];
        Self { s }
    }

    /// Independent sub-stream derived from this seed and a label.
    pub fn derive(seed: u64, label: &str) -> Self {
        let mut h: u64 = 0xcbf2_9ce4_8422_2325;
        for b in label.bytes() {
            h ^= b as u64;
            h = h.wrapping_mul(0x0000_0100_0000_01B3);
        }
        Self::new(seed ^ h.rotate_left(17) ^ 0xA5A5_5A5A_1234_5678)
    }

    pub fn next_u64(&mut self) -> u64 {
        let result = self.s[1].wrapping_mul(5).rotate_left(7).wrapping_mul(9);
        let t = self.s[1] << 17;
        self.s[2] ^= self.s[0];
        self.s[3] ^= self.s[1];
        self.s[1] ^= self.s[2];
        self.s[0] ^= self.s[3];
        self.s[2] ^= t;
        self.s[3] = self.s[3].rotate_left(45);
        result
    }

    /// Uniform in `0..n` (`n > 0`).
    pub fn below(&mut self, n: usize) -> usize {
        debug_assert!(n > 0);
        ((self.next_u64() >> 11) % (n as u64)) as usize
    }

    /// Uniform in `lo..=hi`.
    pub fn range(&mut self, lo: usize, hi: usize) -> usize {
        lo + self.below(hi - lo + 1)
    }

    pub fn chance(&mut self, permille: u32) -> bool {
        permille > 0 && (self.below(1000) as u32) < permille
    }

    pub fn pick<'a, T>(&mut self, items: &'a [T]) -> &'a T {
        &items[self.below(items.len())]
    }
}

// ---------------------------------------------------------------------------------------------
// Events
// ---------------------------------------------------------------------------------------------

#[derive(Clone, Copy, Debug, PartialEq, Eq, Hash)]
#[repr(u8)]
pub enum Op {
    Poll,
    Spawn,
    TaskDone,
    TaskPanic,
    Yield,
    SendTry,
    SendBlocked,
    SendDone,
    SendClosed,
    TrySendFail,
    RecvTry,
    RecvBlocked,
    RecvDone,
    RecvClosed,
    OneshotSend,
    OneshotRecv,
    OneshotRecvDone,
    ChanCreate,
    StdinRead,
    StdinEmpty,
    StdinEof,
    StdoutWrite,
    StdoutFull,
    StdoutShort,
    StdoutEpipe,
    StdoutFlush,
    ClientTx,
    ClientRx,
    ClientEof,
    ClientEpipe,
    ClientStall,
    TimerSet,
    Abort,
    Exit,
    MainDone,
    SelectStart,
    StdoutRaw,
}

#[derive(Clone, Copy, Debug, PartialEq, Eq)]
pub struct Ev {
    pub tick: u64,
    pub actor: u16,
    pub op: Op,
    pub a: u32,
    pub b: u32,
}

pub const ACTOR_CLIENT_TX: u16 = u16::MAX - 1;
pub const ACTOR_CLIENT_RX: u16 = u16::MAX;
pub const ACTOR_NONE: u16 = u16::MAX - 2;

// ---------------------------------------------------------------------------------------------
// Run configuration (the per-run knobs the interposers and pipes consult)
// ---------------------------------------------------------------------------------------------

#[derive(Clone, Debug)]
pub struct RunCfg {
    /// probability (‰) that an interposed operation yields (returns `Pending` once) first
    pub yield_permille: u32,
    /// capacity substituted for the n-th bounded channel created with the shipped capacity 32;
    /// missing entries / 0 mean "as written in the code"
    pub chan_caps: Vec<usize>,
    /// the largest number of bytes one `poll_read` of stdin hands over (0 = unlimited)
    pub read_cap: usize,
    /// if set, every read hands over a seeded amount in 1..=read_cap instead of read_cap
    pub read_cap_random: bool,
    /// capacity of the stdout pipe in bytes
    pub stdout_cap: usize,
    /// probability (‰) that `poll_write` accepts only a strict prefix of what fits
    pub short_write_permille: u32,
    pub seed: u64,
    /// keep the full event list (otherwise only hashes and counters)
    pub keep_events: bool,
    /// worker threads of the simulated multi-thread runtime (0 and 1: one). Task 0 (`block_on`)
    /// always runs on the main thread; every poll of another task runs on a worker drawn from
    /// a PRNG stream of its own. Thread identity is visible to the code only through
    /// `WorkerLocal` (the harness maps `thread_local!` of the code under test onto it).
    pub workers: usize,
}

impl Default for RunCfg {
    fn default() -> Self {
        Self {
            yield_permille: 0,
            chan_caps: vec![],
            read_cap: 0,
            read_cap_random: false,
            stdout_cap: 1 << 20,
            short_write_permille: 0,
            seed: 0,
            keep_events: false,
            workers: 1,
        }
    }
}

// ---------------------------------------------------------------------------------------------
// World
// ---------------------------------------------------------------------------------------------

#[derive(Default, Clone, Debug)]
pub struct Counters {
    pub yields: u64,
    pub send_blocked: [u64; 4],
    pub recv_blocked: [u64; 4],
    pub sent: [u64; 4],
    pub received: [u64; 4],
    pub max_depth: [u64; 4],
    pub stdin_reads: u64,
    pub stdin_empty: u64,
    pub stdout_writes: u64,
    pub stdout_full: u64,
    pub stdout_short: u64,
    pub stdout_epipe: u64,
    pub chans: u32,
    pub timers_set: u64,
    pub timers_fired: u64,
}

struct TaskSlot {
    fut: Option<Pin<Box<dyn Future<Output = ()>>>>,
    flag: Arc<WakeFlag>,
    on_panic: Option<Box<dyn FnOnce(Box<dyn std::any::Any + Send>)>>,
    /// tokio's `JoinHandle::abort`: the task is dropped at its next scheduling point and its
    /// handle resolves to a cancelled `JoinError`
    abort: bool,
    on_abort: Option<Box<dyn FnOnce()>>,
    done: bool,
}

struct WakeFlag {
    woken: AtomicBool,
}

impl Wake for WakeFlag {
    fn wake(self: Arc<Self>) {
        self.woken.store(true, Ordering::SeqCst);
    }
    fn wake_by_ref(self: &Arc<Self>) {
        self.woken.store(true, Ordering::SeqCst);
    }
}

struct World {
    cfg: RunCfg,
    rng_yield: Rng,
    rng_io: Rng,
    rng_worker: Rng,
    rng_select: Rng,
    /// the simulated OS thread the current poll runs on (0 = main thread, 1.. = workers)
    thread: u16,
    tick: u64,
    current: u16,
    tasks: Vec<TaskSlot>,
    // stdin pipe (client -> server)
    stdin_buf: VecDeque<u8>,
    stdin_closed: bool,
    stdin_failed: bool,
    stdin_waker: Option<Waker>,
    stdin_total: u64,
    // stdout pipe (server -> client)
    stdout_buf: VecDeque<u8>,
    stdout_reader_closed: bool,
    stdout_waker: Option<Waker>,
    stdout_total: u64,
    // log
    events: Vec<Ev>,
    hash_full: u64,
    hash_sig: u64,
    n_events: u64,
    counters: Counters,
    depth: [i64; 4],
    /// simulated clock: (deadline tick, sequence number, waker); one tick = one millisecond
    timers: Vec<(u64, u64, Waker)>,
    timer_seq: u64,
}

thread_local! {
    static WORLD: RefCell<Option<World>> = const { RefCell::new(None) };
    static LAST_PANIC: RefCell<Option<PanicReport>> = const { RefCell::new(None) };
    /// reports of the panics of this run by payload address: a payload that is raised again
    /// (`resume_unwind(join_error.into_panic())`) does not pass the panic hook a second time
    static PANIC_REPORTS: RefCell<Vec<(usize, PanicReport)>> = const { RefCell::new(Vec::new()) };
    static IN_SIM: std::cell::Cell<bool> = const { std::cell::Cell::new(false) };
}

fn with_world<R>(f: impl FnOnce(&mut World) -> R) -> Option<R> {
    WORLD.with(|w| w.borrow_mut().as_mut().map(f))
}

fn mix(h: u64, v: u64) -> u64 {
    let mut x = h ^ v.wrapping_mul(0x9E37_79B9_7F4A_7C15);
    x = x.rotate_left(23).wrapping_mul(0xD6E8_FEB8_6659_FD93);
    x ^ (x >> 29)
}

impl World {
    /// Wake every timer that is due (in deadline, then registration order).
    fn fire_timers(&mut self) {
        if self.timers.is_empty() {
            return;
        }
        let now = self.tick;
        let mut due: Vec<(u64, u64, Waker)> = vec![];
        let mut i = 0;
        while i < self.timers.len() {
            if self.timers[i].0 <= now {
                due.push(self.timers.swap_remove(i));
            } else {
                i += 1;
            }
        }
        due.sort_by_key(|t| (t.0, t.1));
        for (_, _, w) in due {
            self.counters.timers_fired += 1;
            w.wake();
        }
    }

    fn log(&mut self, op: Op, a: u32, b: u32) {
        let ev = Ev {
            tick: self.tick,
            actor: self.current,
            op,
            a,
            b,
        };
        self.n_events += 1;
        let packed = ((ev.actor as u64) << 48) ^ ((op as u64) << 40) ^ ((a as u64) << 20) ^ b as u64;
        self.hash_full = mix(mix(self.hash_full, ev.tick), packed);
        // the interleaving signature ignores payload sizes and ticks: who did which kind of op
        self.hash_sig = mix(self.hash_sig, ((ev.actor as u64) << 8) ^ op as u64);
        if self.cfg.keep_events {
            self.events.push(ev);
        }
    }
}

/// Record an event on behalf of the current actor.
pub fn event(op: Op, a: u32, b: u32) {
    with_world(|w| {
        match op {
            Op::SendBlocked => w.counters.send_blocked[(a as usize).min(3)] += 1,
            Op::RecvBlocked => w.counters.recv_blocked[(a as usize).min(3)] += 1,
            _ => {}
        }
        w.log(op, a, b)
    });
}

/// Called by the channel interposer; returns (channel id, capacity to use).
pub fn on_channel_create(requested: usize) -> (u32, usize) {
    with_world(|w| {
        let id = w.counters.chans;
        w.counters.chans += 1;
        let cap = match w.cfg.chan_caps.get(id as usize) {
            Some(&c) if c > 0 && requested == 32 => c,
            _ => requested,
        };
        w.log(Op::ChanCreate, id, cap as u32);
        (id, cap)
    })
    .unwrap_or((0, requested))
}

pub fn on_sent(id: u32, ok: bool) {
    with_world(|w| {
        let i = (id as usize).min(3);
        if ok {
            w.counters.sent[i] += 1;
            w.depth[i] += 1;
            if w.depth[i] as u64 > w.counters.max_depth[i] {
                w.counters.max_depth[i] = w.depth[i] as u64;
            }
            w.log(Op::SendDone, id, w.depth[i] as u32);
        } else {
            w.log(Op::SendClosed, id, 0);
        }
    });
}

pub fn on_received(id: u32, some: bool) {
    with_world(|w| {
        let i = (id as usize).min(3);
        if some {
            w.counters.received[i] += 1;
            w.depth[i] -= 1;
            w.log(Op::RecvDone, id, w.depth[i].max(0) as u32);
        } else {
            w.log(Op::RecvClosed, id, 0);
        }
    });
}

/// Decide (seeded) whether the current operation yields first.
pub fn want_yield(op: Op, a: u32) -> bool {
    with_world(|w| {
        w.log(op, a, 0);
        let p = w.cfg.yield_permille;
        if p > 0 && w.rng_yield.chance(p) {
            w.counters.yields += 1;
            w.log(Op::Yield, a, 0);
            true
        } else {
            false
        }
    })
    .unwrap_or(false)
}

/// A future that is `Pending` once (self-waking) iff the seeded coin says so.
pub fn yield_point(op: Op, a: u32) -> YieldPoint {
    YieldPoint {
        op,
        a,
        decided: false,
    }
}

pub struct YieldPoint {
    op: Op,
    a: u32,
    decided: bool,
}

impl Future for YieldPoint {
    type Output = ();
    fn poll(mut self: Pin<&mut Self>, cx: &mut Context<'_>) -> Poll<()> {
        if !self.decided {
            self.decided = true;
            if want_yield(self.op, self.a) {
                cx.waker().wake_by_ref();
                return Poll::Pending;
            }
        }
        Poll::Ready(())
    }
}

// ---------------------------------------------------------------------------------------------
// Runtime: spawn / JoinHandle
// ---------------------------------------------------------------------------------------------

pub mod rt {
    use super::*;
    use std::rc::Rc;

    pub struct JoinError {
        pub(crate) panicked: bool,
        /// what the task panicked with (tokio hands it out through `into_panic`)
        pub(crate) payload: Option<Box<dyn std::any::Any + Send>>,
    }

    impl std::fmt::Debug for JoinError {
        fn fmt(&self, f: &mut std::fmt::Formatter<'_>) -> std::fmt::Result {
            write!(f, "JoinError::{}", if self.panicked { "Panic(...)" } else { "Cancelled" })
        }
    }

    impl JoinError {
        pub fn is_panic(&self) -> bool {
            self.panicked
        }
        pub fn is_cancelled(&self) -> bool {
            !self.panicked
        }
        /// As tokio's: the panic payload; panics itself if the task was cancelled.
        pub fn into_panic(self) -> Box<dyn std::any::Any + Send> {
            self.try_into_panic().expect("`JoinError` reason is not a panic.")
        }
        pub fn try_into_panic(mut self) -> Result<Box<dyn std::any::Any + Send>, JoinError> {
            if self.panicked {
                Ok(self.payload.take().unwrap_or_else(|| Box::new("task panicked")))
            } else {
                Err(self)
            }
        }
    }

    impl std::fmt::Display for JoinError {
        fn fmt(&self, f: &mut std::fmt::Formatter<'_>) -> std::fmt::Result {
            write!(f, "{}", if self.panicked { "task panicked" } else { "task was cancelled" })
        }
    }

    /// Handle that can cancel a task without owning its result.
    #[derive(Clone, Debug)]
    pub struct AbortHandle {
        task: u32,
    }

    fn request_abort(task: u32) {
        with_world(|w| {
            if let Some(t) = w.tasks.get_mut(task as usize) {
                if !t.done {
                    t.abort = true;
                    // make it runnable so that the scheduler gets to drop it
                    t.flag.woken.store(true, Ordering::SeqCst);
                }
            }
            w.log(Op::Abort, task, 0);
        });
    }

    impl AbortHandle {
        pub fn abort(&self) {
            request_abort(self.task)
        }
        pub fn is_finished(&self) -> bool {
            with_world(|w| w.tasks.get(self.task as usize).map_or(true, |t| t.done)).unwrap_or(true)
        }
    }

    impl std::error::Error for JoinError {}

    struct JoinState<T> {
        result: RefCell<Option<Result<T, JoinError>>>,
        waker: RefCell<Option<Waker>>,
        finished: std::cell::Cell<bool>,
        task: std::cell::Cell<u32>,
    }

    pub struct JoinHandle<T> {
        state: Rc<JoinState<T>>,
    }

    impl<T> std::fmt::Debug for JoinHandle<T> {
        fn fmt(&self, f: &mut std::fmt::Formatter<'_>) -> std::fmt::Result {
            write!(f, "JoinHandle")
        }
    }

    impl<T> JoinHandle<T> {
        pub fn is_finished(&self) -> bool {
            self.state.finished.get()
        }
        pub fn abort(&self) {
            request_abort(self.state.task.get())
        }
        pub fn abort_handle(&self) -> AbortHandle {
            AbortHandle {
                task: self.state.task.get(),
            }
        }
    }

    impl<T> Future for JoinHandle<T> {
        type Output = Result<T, JoinError>;
        fn poll(self: Pin<&mut Self>, cx: &mut Context<'_>) -> Poll<Self::Output> {
            if let Some(res) = self.state.result.borrow_mut().take() {
                return Poll::Ready(res);
            }
            *self.state.waker.borrow_mut() = Some(cx.waker().clone());
            Poll::Pending
        }
    }

    /// Registers the future as a new task of the simulated process.
    ///
    /// # Panics
    /// Panics when no simulation is installed on this thread.
    pub fn spawn<F>(future: F) -> JoinHandle<F::Output>
    where
        F: Future + 'static,
        F::Output: 'static,
    {
        let state = Rc::new(JoinState {
            result: RefCell::new(None),
            waker: RefCell::new(None),
            finished: std::cell::Cell::new(false),
            task: std::cell::Cell::new(u32::MAX),
        });
        let s1 = state.clone();
        let s2 = state.clone();
        let s3 = state.clone();
        let s4 = state.clone();
        let wrapped = async move {
            let out = future.await;
            *s1.result.borrow_mut() = Some(Ok(out));
            s1.finished.set(true);
            if let Some(w) = s1.waker.borrow_mut().take() {
                w.wake();
            }
        };
        let on_panic = move |payload: Box<dyn std::any::Any + Send>| {
            *s2.result.borrow_mut() = Some(Err(JoinError { panicked: true, payload: Some(payload) }));
            s2.finished.set(true);
            if let Some(w) = s2.waker.borrow_mut().take() {
                w.wake();
            }
        };
        let on_abort = move || {
            if s3.result.borrow().is_none() {
                *s3.result.borrow_mut() = Some(Err(JoinError { panicked: false, payload: None }));
            }
            s3.finished.set(true);
            if let Some(w) = s3.waker.borrow_mut().take() {
                w.wake();
            }
        };
        let registered = with_world(|w| {
            let id = w.tasks.len() as u32;
            s4.task.set(id);
            w.tasks.push(TaskSlot {
                fut: Some(Box::pin(wrapped)),
                flag: Arc::new(WakeFlag {
                    woken: AtomicBool::new(true),
                }),
                on_panic: Some(Box::new(on_panic)),
                abort: false,
                on_abort: Some(Box::new(on_abort)),
                done: false,
            });
            w.log(Op::Spawn, id, 0);
        });
        assert!(
            registered.is_some(),
            "simtokio::spawn called outside of a simulation"
        );
        JoinHandle { state }
    }
}

// ---------------------------------------------------------------------------------------------
// Simulated stdio
// ---------------------------------------------------------------------------------------------

pub mod stdio {
    use super::*;
    use tokio_real::io::{AsyncRead, AsyncWrite, ReadBuf};

    #[derive(Debug)]
    pub struct Stdin {
        yielded: bool,
    }

    #[derive(Debug)]
    pub struct Stdout {
        yielded: bool,
    }

    pub fn stdin() -> Stdin {
        Stdin { yielded: false }
    }

    pub fn stdout() -> Stdout {
        Stdout { yielded: false }
    }

    impl AsyncRead for Stdin {
        fn poll_read(
            mut self: Pin<&mut Self>,
            cx: &mut Context<'_>,
            buf: &mut ReadBuf<'_>,
        ) -> Poll<std::io::Result<()>> {
            if !self.yielded {
                self.yielded = true;
                if want_yield(Op::StdinRead, 0) {
                    cx.waker().wake_by_ref();
                    return Poll::Pending;
                }
            }
            let res = with_world(|w| {
                if w.stdin_buf.is_empty() {
                    if w.stdin_failed {
                        // a read error (EIO, connection reset): the stream ends with an error
                        w.log(Op::StdinEof, 1, 0);
                        return Poll::Ready(Err(std::io::Error::new(
                            std::io::ErrorKind::Other,
                            "simulated read error",
                        )));
                    }
                    if w.stdin_closed {
                        w.log(Op::StdinEof, 0, 0);
                        return Poll::Ready(Ok(()));
                    }
                    w.counters.stdin_empty += 1;
                    w.log(Op::StdinEmpty, 0, 0);
                    w.stdin_waker = Some(cx.waker().clone());
                    return Poll::Pending;
                }
                let mut n = w.stdin_buf.len().min(buf.remaining());
                if w.cfg.read_cap > 0 {
                    let cap = if w.cfg.read_cap_random {
                        w.rng_io.range(1, w.cfg.read_cap)
                    } else {
                        w.cfg.read_cap
                    };
                    n = n.min(cap);
                }
                for _ in 0..n {
                    let b = w.stdin_buf.pop_front().unwrap();
                    buf.put_slice(&[b]);
                }
                w.counters.stdin_reads += 1;
                w.log(Op::StdinRead, n as u32, 1);
                Poll::Ready(Ok(()))
            });
            let res = res.expect("simulated stdin used outside of a simulation");
            if res.is_ready() {
                self.yielded = false;
            }
            res
        }
    }

    impl AsyncWrite for Stdout {
        fn poll_write(
            mut self: Pin<&mut Self>,
            cx: &mut Context<'_>,
            data: &[u8],
        ) -> Poll<std::io::Result<usize>> {
            if !self.yielded {
                self.yielded = true;
                if want_yield(Op::StdoutWrite, 0) {
                    cx.waker().wake_by_ref();
                    return Poll::Pending;
                }
            }
            let res = with_world(|w| {
                if w.stdout_reader_closed {
                    w.counters.stdout_epipe += 1;
                    w.log(Op::StdoutEpipe, 0, 0);
                    return Poll::Ready(Err(std::io::Error::from(
                        std::io::ErrorKind::BrokenPipe,
                    )));
                }
                if data.is_empty() {
                    return Poll::Ready(Ok(0));
                }
                let room = w.cfg.stdout_cap.saturating_sub(w.stdout_buf.len());
                if room == 0 {
                    w.counters.stdout_full += 1;
                    w.log(Op::StdoutFull, 0, 0);
                    w.stdout_waker = Some(cx.waker().clone());
                    return Poll::Pending;
                }
                let mut n = room.min(data.len());
                if n > 1 && w.rng_io.chance(w.cfg.short_write_permille) {
                    n = w.rng_io.range(1, n - 1);
                    w.counters.stdout_short += 1;
                    w.log(Op::StdoutShort, n as u32, 0);
                }
                w.stdout_buf.extend(&data[..n]);
                w.stdout_total += n as u64;
                w.counters.stdout_writes += 1;
                w.log(Op::StdoutWrite, n as u32, 1);
                Poll::Ready(Ok(n))
            });
            let res = res.expect("simulated stdout used outside of a simulation");
            if res.is_ready() {
                self.yielded = false;
            }
            res
        }

        fn poll_flush(self: Pin<&mut Self>, _cx: &mut Context<'_>) -> Poll<std::io::Result<()>> {
            let res = with_world(|w| {
                w.log(Op::StdoutFlush, 0, 0);
                if w.stdout_reader_closed {
                    Err(std::io::Error::from(std::io::ErrorKind::BrokenPipe))
                } else {
                    Ok(())
                }
            });
            Poll::Ready(res.expect("simulated stdout used outside of a simulation"))
        }

        fn poll_shutdown(
            self: Pin<&mut Self>,
            _cx: &mut Context<'_>,
        ) -> Poll<std::io::Result<()>> {
            Poll::Ready(Ok(()))
        }
    }
}

// ---------------------------------------------------------------------------------------------
// Simulated clock: `tokio::time` on logical ticks (one tick = one millisecond). Nothing reads a
// real clock; when no actor is runnable the scenario runner jumps to the next deadline.
// ---------------------------------------------------------------------------------------------

pub mod time {
    use super::*;
    pub use std::time::Duration;

    fn now_tick() -> u64 {
        with_world(|w| w.tick).unwrap_or(0)
    }

    fn ticks_of(d: Duration) -> u64 {
        (d.as_millis().min(u64::MAX as u128 / 4) as u64).max(1)
    }

    /// A point of simulated time.
    #[derive(Clone, Copy, Debug, PartialEq, Eq, PartialOrd, Ord, Hash)]
    pub struct Instant(u64);

    impl Instant {
        pub fn now() -> Self {
            Instant(now_tick())
        }
        pub fn elapsed(&self) -> Duration {
            Duration::from_millis(now_tick().saturating_sub(self.0))
        }
        pub fn duration_since(&self, earlier: Instant) -> Duration {
            Duration::from_millis(self.0.saturating_sub(earlier.0))
        }
        pub fn saturating_duration_since(&self, earlier: Instant) -> Duration {
            self.duration_since(earlier)
        }
        pub fn checked_add(&self, d: Duration) -> Option<Instant> {
            self.0.checked_add(d.as_millis() as u64).map(Instant)
        }
        pub fn checked_sub(&self, d: Duration) -> Option<Instant> {
            self.0.checked_sub(d.as_millis() as u64).map(Instant)
        }
    }

    impl std::ops::Add<Duration> for Instant {
        type Output = Instant;
        fn add(self, d: Duration) -> Instant {
            Instant(self.0.saturating_add(d.as_millis() as u64))
        }
    }

    impl std::ops::Sub<Duration> for Instant {
        type Output = Instant;
        fn sub(self, d: Duration) -> Instant {
            Instant(self.0.saturating_sub(d.as_millis() as u64))
        }
    }

    impl std::ops::Sub<Instant> for Instant {
        type Output = Duration;
        fn sub(self, other: Instant) -> Duration {
            self.duration_since(other)
        }
    }

    /// Future returned by [`sleep`] / [`sleep_until`].
    #[derive(Debug)]
    pub struct Sleep {
        deadline: u64,
        registered: bool,
    }

    impl Sleep {
        pub fn deadline(&self) -> Instant {
            Instant(self.deadline)
        }
        pub fn is_elapsed(&self) -> bool {
            now_tick() >= self.deadline
        }
        pub fn reset(mut self: Pin<&mut Self>, deadline: Instant) {
            self.deadline = deadline.0;
            self.registered = false;
        }
    }

    impl Future for Sleep {
        type Output = ();
        fn poll(mut self: Pin<&mut Self>, cx: &mut Context<'_>) -> Poll<()> {
            let deadline = self.deadline;
            let done = with_world(|w| {
                if w.tick >= deadline {
                    return true;
                }
                // (re-)register: a timer entry per poll is harmless, a stale waker only wakes
                w.timer_seq += 1;
                let seq = w.timer_seq;
                w.timers.push((deadline, seq, cx.waker().clone()));
                w.counters.timers_set += 1;
                w.log(Op::TimerSet, (deadline - w.tick).min(u32::MAX as u64) as u32, 0);
                false
            })
            .expect("simulated clock used outside of a simulation");
            self.registered = true;
            if done {
                Poll::Ready(())
            } else {
                Poll::Pending
            }
        }
    }

    pub fn sleep(d: Duration) -> Sleep {
        Sleep {
            deadline: now_tick().saturating_add(ticks_of(d)),
            registered: false,
        }
    }

    pub fn sleep_until(at: Instant) -> Sleep {
        Sleep {
            deadline: at.0,
            registered: false,
        }
    }

    pub mod error {
        /// The deadline of a [`super::timeout`] passed.
        #[derive(Debug, PartialEq, Eq)]
        pub struct Elapsed(pub(crate) ());
        impl std::fmt::Display for Elapsed {
            fn fmt(&self, f: &mut std::fmt::Formatter<'_>) -> std::fmt::Result {
                write!(f, "deadline has elapsed")
            }
        }
        impl std::error::Error for Elapsed {}
    }

    pub struct Timeout<F> {
        fut: Pin<Box<F>>,
        sleep: Sleep,
    }

    impl<F: Future> Future for Timeout<F> {
        type Output = Result<F::Output, error::Elapsed>;
        fn poll(mut self: Pin<&mut Self>, cx: &mut Context<'_>) -> Poll<Self::Output> {
            if let Poll::Ready(v) = self.fut.as_mut().poll(cx) {
                return Poll::Ready(Ok(v));
            }
            match Pin::new(&mut self.sleep).poll(cx) {
                Poll::Ready(()) => Poll::Ready(Err(error::Elapsed(()))),
                Poll::Pending => Poll::Pending,
            }
        }
    }

    pub fn timeout<F: Future>(d: Duration, fut: F) -> Timeout<F> {
        Timeout {
            fut: Box::pin(fut),
            sleep: sleep(d),
        }
    }

    pub fn timeout_at<F: Future>(at: Instant, fut: F) -> Timeout<F> {
        Timeout {
            fut: Box::pin(fut),
            sleep: sleep_until(at),
        }
    }

    #[derive(Clone, Copy, Debug, PartialEq, Eq)]
    pub enum MissedTickBehavior {
        Burst,
        Delay,
        Skip,
    }

    #[derive(Debug)]
    pub struct Interval {
        next: u64,
        period: u64,
    }

    impl Interval {
        pub async fn tick(&mut self) -> Instant {
            let at = self.next;
            sleep_until(Instant(at)).await;
            self.next = at.saturating_add(self.period).max(now_tick().saturating_add(1));
            Instant(at)
        }
        pub fn period(&self) -> Duration {
            Duration::from_millis(self.period)
        }
        pub fn reset(&mut self) {
            self.next = now_tick().saturating_add(self.period);
        }
        pub fn set_missed_tick_behavior(&mut self, _b: MissedTickBehavior) {}
    }

    /// First tick completes immediately, like tokio's.
    pub fn interval(period: Duration) -> Interval {
        Interval {
            next: now_tick(),
            period: ticks_of(period),
        }
    }

    pub fn interval_at(start: Instant, period: Duration) -> Interval {
        Interval {
            next: start.0,
            period: ticks_of(period),
        }
    }
}

// ---------------------------------------------------------------------------------------------
// Panic capture and the process-exit payload
// ---------------------------------------------------------------------------------------------

// ---------------------------------------------------------------------------------------------
// Thread identity: per-(simulated-)thread storage
// ---------------------------------------------------------------------------------------------

/// Bytes the code writes to the PROCESS's standard output behind tokio's back (`println!`,
/// `print!`): they go into the same pipe the client reads, at this very instant - between, or in
/// the middle of, whatever the framed writer has written so far. (A blocking write: it does not
/// respect the pipe's capacity, the thread would simply wait.) Outside a simulated run the bytes
/// go to the real standard output.
pub fn process_stdout_write(bytes: &[u8]) {
    let done = with_world(|w| {
        w.stdout_buf.extend(bytes.iter().copied());
        w.stdout_total += bytes.len() as u64;
        w.log(Op::StdoutRaw, bytes.len() as u32, 0);
    });
    if done.is_none() {
        use std::io::Write;
        let _ = std::io::stdout().write_all(bytes);
    }
}

/// The branch an unbiased `select!` starts polling at: seeded, part of the event log.
pub fn select_start(branches: u32) -> u32 {
    if branches == 0 {
        return 0;
    }
    with_world(|w| {
        let k = w.rng_select.below(branches as usize) as u32;
        w.log(Op::SelectStart, branches, k);
        k
    })
    .unwrap_or(0)
}

/// The simulated OS thread the code is running on right now: 0 is the main thread (`block_on`
/// and everything outside a poll), 1.. are the runtime's workers.
pub fn current_thread() -> u16 {
    if IN_SIM.with(|c| c.get()) {
        WORLD
            .with(|w| w.try_borrow().ok().and_then(|w| w.as_ref().map(|w| w.thread)))
            .unwrap_or(0)
    } else {
        0
    }
}

pub mod worker_local {
    //! What `thread_local!` means under the simulator: one value per *simulated* thread. A task
    //! of a multi-thread runtime may be polled on a different worker every time, so state kept
    //! in a thread-local does not follow the task - exactly as on the real runtime.
    use std::any::Any;
    use std::cell::{Cell, RefCell};
    use std::collections::HashMap;
    use std::marker::PhantomData;
    use std::rc::Rc;

    thread_local! {
        static STORE: RefCell<HashMap<(u16, usize), Rc<dyn Any>>> = RefCell::new(HashMap::new());
    }

    /// Forget every value (a new simulated process starts).
    pub fn reset() {
        let old = STORE.with(|s| std::mem::take(&mut *s.borrow_mut()));
        drop(old);
    }

    /// Number of distinct (thread, key) slots in use - a reach measure.
    pub fn slots() -> usize {
        STORE.with(|s| s.borrow().len())
    }

    pub struct WorkerLocal<T: 'static> {
        init: fn() -> T,
        _p: PhantomData<fn() -> T>,
    }

    #[derive(Debug)]
    pub struct AccessError;

    impl<T: 'static> WorkerLocal<T> {
        pub const fn new(init: fn() -> T) -> Self {
            Self { init, _p: PhantomData }
        }

        fn slot(&'static self) -> Rc<dyn Any> {
            let key = (super::current_thread(), self as *const Self as usize);
            if let Some(v) = STORE.with(|s| s.borrow().get(&key).cloned()) {
                return v;
            }
            // the initialiser may itself use other worker-locals: not under the borrow
            let fresh: Rc<dyn Any> = Rc::new((self.init)());
            STORE.with(|s| s.borrow_mut().entry(key).or_insert(fresh).clone())
        }

        pub fn with<F, R>(&'static self, f: F) -> R
        where
            F: FnOnce(&T) -> R,
        {
            let slot = self.slot();
            f(slot.downcast_ref::<T>().expect("worker-local type"))
        }

        pub fn try_with<F, R>(&'static self, f: F) -> Result<R, AccessError>
        where
            F: FnOnce(&T) -> R,
        {
            Ok(self.with(f))
        }
    }

    impl<T: 'static> WorkerLocal<Cell<T>> {
        pub fn set(&'static self, value: T) {
            self.with(|c| c.set(value))
        }
        pub fn get(&'static self) -> T
        where
            T: Copy,
        {
            self.with(|c| c.get())
        }
        pub fn take(&'static self) -> T
        where
            T: Default,
        {
            self.with(|c| c.take())
        }
        pub fn replace(&'static self, value: T) -> T {
            self.with(|c| c.replace(value))
        }
    }

    impl<T: 'static> WorkerLocal<RefCell<T>> {
        pub fn with_borrow<F, R>(&'static self, f: F) -> R
        where
            F: FnOnce(&T) -> R,
        {
            self.with(|c| f(&c.borrow()))
        }
        pub fn with_borrow_mut<F, R>(&'static self, f: F) -> R
        where
            F: FnOnce(&mut T) -> R,
        {
            self.with(|c| f(&mut c.borrow_mut()))
        }
        pub fn set(&'static self, value: T) {
            self.with(|c| *c.borrow_mut() = value)
        }
        pub fn take(&'static self) -> T
        where
            T: Default,
        {
            self.with(|c| c.take())
        }
        pub fn replace(&'static self, value: T) -> T {
            self.with(|c| c.replace(value))
        }
    }
}


#[derive(Clone, Debug)]
pub struct PanicReport {
    pub message: String,
    pub file: String,
    pub line: u32,
    /// innermost frames that belong to the code under test (function names), innermost first
    pub frames: Vec<String>,
}

/// Payload used to unwind out of the task that called `std::process::exit`.
pub struct ExitPayload(pub i32);

/// To be installed as the exit handler of the code under test.
pub fn exit_process(code: i32) -> ! {
    std::panic::resume_unwind(Box::new(ExitPayload(code)))
}

static HOOK: std::sync::Once = std::sync::Once::new();

fn install_panic_hook() {
    HOOK.call_once(|| {
        let default = std::panic::take_hook();
        std::panic::set_hook(Box::new(move |info| {
            if !IN_SIM.with(|c| c.get()) {
                default(info);
                return;
            }
            let message = if let Some(s) = info.payload().downcast_ref::<&str>() {
                s.to_string()
            } else if let Some(s) = info.payload().downcast_ref::<String>() {
                s.clone()
            } else {
                "<non-string panic payload>".to_string()
            };
            let (file, line) = info
                .location()
                .map(|l| (l.file().to_string(), l.line()))
                .unwrap_or_default();
            let bt = std::backtrace::Backtrace::force_capture().to_string();
            if std::env::var("VERIF_BT").is_ok() {
                eprintln!("{bt}");
            }
            let mut frames = vec![];
            for l in bt.lines() {
                let l = l.trim();
                // lines look like "12: crate::module::function" (followed by an "at file:line" line)
                if let Some((idx, name)) = l.split_once(": ") {
                    let own = (name.starts_with("simcheck::") && !name.starts_with("simcheck::h::"))
                        || name.starts_with("spl_frontend::")
                        || name.starts_with("<spl_frontend::")
                        || name.starts_with("<simcheck::");
                    if idx.chars().all(|c| c.is_ascii_digit()) && own {
                        // the shadow binary is called simcheck; the code is lsp4spl's
                        let mut n = name.replace("simcheck::", "lsp4spl::");
                        while let Some(stripped) = n.strip_suffix("::{{closure}}") {
                            n = stripped.to_string();
                        }
                        if frames.last() != Some(&n) {
                            frames.push(n);
                        }
                    }
                }
            }
            frames.truncate(6);
            LAST_PANIC.with(|p| {
                *p.borrow_mut() = Some(PanicReport {
                    message,
                    file,
                    line,
                    frames,
                })
            });
        }));
    });
}

/// Run `f` with panics captured silently (used by harness-side oracles that call the code under
/// test outside of a task).
pub fn catch<R>(f: impl FnOnce() -> R) -> Result<R, PanicReport> {
    install_panic_hook();
    let was = IN_SIM.with(|c| c.replace(true));
    let r = std::panic::catch_unwind(std::panic::AssertUnwindSafe(f));
    IN_SIM.with(|c| c.set(was));
    match r {
        Ok(v) => Ok(v),
        Err(_) => Err(LAST_PANIC.with(|p| p.borrow_mut().take()).unwrap_or(PanicReport {
            message: "<unknown>".into(),
            file: String::new(),
            line: 0,
            frames: vec![],
        })),
    }
}

// ---------------------------------------------------------------------------------------------
// The handle the harness drives
// ---------------------------------------------------------------------------------------------

#[derive(Clone, Debug)]
pub enum ProcessEnd {
    /// the main future returned; `true` = `Ok`
    MainReturned(bool),
    /// `std::process::exit(code)`
    Exit(i32),
    /// the main future panicked (status 101)
    MainPanicked(PanicReport),
}

impl ProcessEnd {
    pub fn status(&self) -> i32 {
        match self {
            ProcessEnd::MainReturned(true) => 0,
            ProcessEnd::MainReturned(false) => 1,
            ProcessEnd::Exit(c) => *c,
            ProcessEnd::MainPanicked(_) => 101,
        }
    }
}

#[derive(Clone, Debug)]
pub enum PollOutcome {
    Pending,
    Done,
    Panicked(PanicReport),
    ProcessEnded(ProcessEnd),
}

pub struct Sim {
    main_result: std::rc::Rc<RefCell<Option<bool>>>,
    ended: Option<ProcessEnd>,
    pub task_panics: Vec<(u16, PanicReport)>,
}

pub struct Summary {
    pub events: Vec<Ev>,
    pub n_events: u64,
    pub hash_full: u64,
    pub hash_sig: u64,
    pub counters: Counters,
    pub ticks: u64,
    pub stdin_total: u64,
    pub stdout_total: u64,
}

impl Sim {
    /// Installs a fresh world on this thread and registers `main` as task 0.
    /// `main` resolves to `true` for `Ok`, `false` for `Err` (process status 0 / 1).
    pub fn start<F>(cfg: RunCfg, main: F) -> Self
    where
        F: Future<Output = bool> + 'static,
    {
        install_panic_hook();
        worker_local::reset();
        PANIC_REPORTS.with(|p| p.borrow_mut().clear());
        let seed = cfg.seed;
        WORLD.with(|w| {
            *w.borrow_mut() = Some(World {
                rng_yield: Rng::derive(seed, "yield"),
                rng_io: Rng::derive(seed, "io"),
                rng_worker: Rng::derive(seed, "worker"),
                rng_select: Rng::derive(seed, "select"),
                thread: 0,
                cfg,
                tick: 0,
                current: 0,
                tasks: vec![],
                stdin_buf: VecDeque::new(),
                stdin_closed: false,
                stdin_failed: false,
                stdin_waker: None,
                stdin_total: 0,
                stdout_buf: VecDeque::new(),
                stdout_reader_closed: false,
                stdout_waker: None,
                stdout_total: 0,
                events: vec![],
                hash_full: 0x1234_5678_9ABC_DEF0,
                hash_sig: 0x0FED_CBA9_8765_4321,
                n_events: 0,
                counters: Counters::default(),
                depth: [0; 4],
                timers: vec![],
                timer_seq: 0,
            })
        });
        let main_result = std::rc::Rc::new(RefCell::new(None));
        let mr = main_result.clone();
        let wrapped = async move {
            let ok = main.await;
            *mr.borrow_mut() = Some(ok);
        };
        with_world(|w| {
            w.tasks.push(TaskSlot {
                fut: Some(Box::pin(wrapped)),
                flag: Arc::new(WakeFlag {
                    woken: AtomicBool::new(true),
                }),
                on_panic: None,
                abort: false,
                on_abort: None,
                done: false,
            });
        });
        Self {
            main_result,
            ended: None,
            task_panics: vec![],
        }
    }

    pub fn ended(&self) -> Option<&ProcessEnd> {
        self.ended.as_ref()
    }

    pub fn tick(&self) -> u64 {
        with_world(|w| w.tick).unwrap_or(0)
    }

    /// Advance logical time by one step on behalf of `actor` (used for client actors and idling).
    pub fn advance(&mut self, actor: u16) {
        with_world(|w| {
            w.tick += 1;
            w.current = actor;
            w.fire_timers();
        });
    }

    /// Nothing is runnable: jump the logical clock to the next timed event.
    pub fn jump_to(&mut self, tick: u64) {
        with_world(|w| {
            if tick > w.tick {
                w.tick = tick;
            }
            w.fire_timers();
        });
    }

    /// Deadline of the earliest pending timer of the simulated clock, if any.
    pub fn next_timer(&self) -> Option<u64> {
        with_world(|w| w.timers.iter().map(|t| t.0).min()).flatten()
    }

    /// Ids of the server tasks that are woken and not finished.
    pub fn runnable(&self) -> Vec<u16> {
        if self.ended.is_some() {
            return vec![];
        }
        with_world(|w| {
            w.tasks
                .iter()
                .enumerate()
                .filter(|(_, t)| !t.done && t.flag.woken.load(Ordering::SeqCst))
                .map(|(i, _)| i as u16)
                .collect()
        })
        .unwrap_or_default()
    }

    pub fn task_count(&self) -> usize {
        with_world(|w| w.tasks.len()).unwrap_or(0)
    }

    pub fn task_alive(&self, id: u16) -> bool {
        with_world(|w| w.tasks.get(id as usize).map(|t| !t.done).unwrap_or(false)).unwrap_or(false)
    }

    /// Poll one task once.
    pub fn poll(&mut self, id: u16) -> PollOutcome {
        assert!(self.ended.is_none(), "process already ended");
        let taken = with_world(|w| {
            w.tick += 1;
            w.current = id;
            w.thread = if id == 0 {
                0
            } else if w.cfg.workers > 1 {
                1 + w.rng_worker.below(w.cfg.workers) as u16
            } else {
                1
            };
            w.fire_timers();
            w.log(Op::Poll, id as u32, w.thread as u32);
            let t = &mut w.tasks[id as usize];
            t.flag.woken.store(false, Ordering::SeqCst);
            (t.fut.take(), t.flag.clone())
        })
        .expect("no world");
        let (mut fut, flag) = match taken {
            (Some(f), flag) => (f, flag),
            (None, _) => return PollOutcome::Done,
        };
        // an aborted task is dropped at this scheduling point instead of being polled
        let aborted = with_world(|w| w.tasks[id as usize].abort && id != 0).unwrap_or(false);
        if aborted {
            let on_abort = with_world(|w| {
                let t = &mut w.tasks[id as usize];
                t.done = true;
                t.on_panic = None;
                w.log(Op::TaskDone, id as u32, 1);
                w.tasks[id as usize].on_abort.take()
            })
            .flatten();
            IN_SIM.with(|c| c.set(true));
            let _ = std::panic::catch_unwind(std::panic::AssertUnwindSafe(move || drop(fut)));
            IN_SIM.with(|c| c.set(false));
            if let Some(f) = on_abort {
                f();
            }
            return PollOutcome::Done;
        }
        let waker = Waker::from(flag);
        let mut cx = Context::from_waker(&waker);
        IN_SIM.with(|c| c.set(true));
        let res = std::panic::catch_unwind(std::panic::AssertUnwindSafe(|| {
            fut.as_mut().poll(&mut cx)
        }));
        IN_SIM.with(|c| c.set(false));
        match res {
            Ok(Poll::Pending) => {
                with_world(|w| w.tasks[id as usize].fut = Some(fut));
                PollOutcome::Pending
            }
            Ok(Poll::Ready(())) => {
                drop(fut);
                with_world(|w| {
                    w.tasks[id as usize].done = true;
                    w.tasks[id as usize].on_panic = None;
                    w.log(Op::TaskDone, id as u32, 0);
                });
                if id == 0 {
                    let ok = self.main_result.borrow().unwrap_or(false);
                    let end = ProcessEnd::MainReturned(ok);
                    with_world(|w| w.log(Op::MainDone, ok as u32, 0));
                    self.ended = Some(end.clone());
                    PollOutcome::ProcessEnded(end)
                } else {
                    PollOutcome::Done
                }
            }
            Err(payload) => {
                // the future is dropped *after* recording, inside a guard, because destructors of
                // half-run futures may themselves touch the world
                let report = LAST_PANIC.with(|p| p.borrow_mut().take());
                if let Some(exit) = payload.downcast_ref::<ExitPayload>() {
                    let code = exit.0;
                    with_world(|w| {
                        w.tasks[id as usize].done = true;
                        w.log(Op::Exit, code as u32, 0);
                    });
                    // the process is gone; the future is only dropped to reclaim memory
                    IN_SIM.with(|c| c.set(true));
                    let _ =
                        std::panic::catch_unwind(std::panic::AssertUnwindSafe(move || drop(fut)));
                    IN_SIM.with(|c| c.set(false));
                    let end = ProcessEnd::Exit(code);
                    self.ended = Some(end.clone());
                    return PollOutcome::ProcessEnded(end);
                }
                let addr = &*payload as *const dyn std::any::Any as *const () as usize;
                let report = match report {
                    Some(r) => {
                        PANIC_REPORTS.with(|p| p.borrow_mut().push((addr, r.clone())));
                        r
                    }
                    None => PANIC_REPORTS
                        .with(|p| p.borrow().iter().find(|(a, _)| *a == addr).map(|(_, r)| r.clone()))
                        .unwrap_or(PanicReport {
                            message: "<panic without report>".into(),
                            file: String::new(),
                            line: 0,
                            frames: vec![],
                        }),
                };
                let on_panic = with_world(|w| {
                    w.tasks[id as usize].done = true;
                    w.log(Op::TaskPanic, id as u32, 0);
                    w.tasks[id as usize].on_panic.take()
                })
                .flatten();
                // tokio drops the panicked task's future (its channel ends close)
                IN_SIM.with(|c| c.set(true));
                let _ = std::panic::catch_unwind(std::panic::AssertUnwindSafe(move || drop(fut)));
                IN_SIM.with(|c| c.set(false));
                if let Some(f) = on_panic {
                    f(payload);
                }
                if id == 0 {
                    let end = ProcessEnd::MainPanicked(report.clone());
                    self.ended = Some(end.clone());
                    PollOutcome::ProcessEnded(end)
                } else {
                    self.task_panics.push((id, report.clone()));
                    PollOutcome::Panicked(report)
                }
            }
        }
    }

    // ----- client side of the pipes -----

    /// Client writes bytes into the server's stdin.
    pub fn stdin_push(&mut self, bytes: &[u8]) {
        with_world(|w| {
            w.stdin_buf.extend(bytes);
            w.stdin_total += bytes.len() as u64;
            w.log(Op::ClientTx, bytes.len() as u32, 0);
            if let Some(wk) = w.stdin_waker.take() {
                wk.wake();
            }
        });
    }

    /// Client closes its write end (end of input for the server).
    pub fn stdin_close(&mut self) {
        with_world(|w| {
            w.stdin_closed = true;
            w.log(Op::ClientEof, 0, 0);
            if let Some(wk) = w.stdin_waker.take() {
                wk.wake();
            }
        });
    }

    /// The client's end of the pipe breaks: once the buffered bytes are consumed every read
    /// fails with an I/O error.
    pub fn stdin_fail(&mut self) {
        with_world(|w| {
            w.stdin_failed = true;
            w.log(Op::ClientEof, 1, 0);
            if let Some(wk) = w.stdin_waker.take() {
                wk.wake();
            }
        });
    }

    pub fn stdin_pending(&self) -> usize {
        with_world(|w| w.stdin_buf.len()).unwrap_or(0)
    }

    pub fn stdin_delivered(&self) -> u64 {
        with_world(|w| w.stdin_total - w.stdin_buf.len() as u64).unwrap_or(0)
    }

    pub fn stdout_available(&self) -> usize {
        with_world(|w| w.stdout_buf.len()).unwrap_or(0)
    }

    /// Client reads up to `max` bytes from the server's stdout.
    pub fn stdout_drain(&mut self, max: usize) -> Vec<u8> {
        with_world(|w| {
            let n = max.min(w.stdout_buf.len());
            let out: Vec<u8> = w.stdout_buf.drain(..n).collect();
            w.log(Op::ClientRx, n as u32, 0);
            if n > 0 {
                if let Some(wk) = w.stdout_waker.take() {
                    wk.wake();
                }
            }
            out
        })
        .unwrap_or_default()
    }

    /// Client closes its read end: the next write fails with `BrokenPipe`.
    pub fn stdout_close_reader(&mut self) {
        with_world(|w| {
            w.stdout_reader_closed = true;
            w.log(Op::ClientEpipe, 0, 0);
            if let Some(wk) = w.stdout_waker.take() {
                wk.wake();
            }
        });
    }

    pub fn note(&mut self, op: Op, a: u32, b: u32) {
        event(op, a, b);
    }

    pub fn counters(&self) -> Counters {
        with_world(|w| w.counters.clone()).unwrap_or_default()
    }

    pub fn chan_depths(&self) -> [i64; 4] {
        with_world(|w| w.depth).unwrap_or([0; 4])
    }

    pub fn draw_io(&mut self, n: usize) -> usize {
        with_world(|w| w.rng_io.below(n)).unwrap_or(0)
    }

    /// Tear the world down (dropping all remaining task futures, as process exit / runtime
    /// shutdown does) and return what was recorded.
    pub fn finish(self) -> Summary {
        // take the tasks out first so that destructors that touch the world still find it
        let tasks = with_world(|w| std::mem::take(&mut w.tasks)).unwrap_or_default();
        IN_SIM.with(|c| c.set(true));
        let _ = std::panic::catch_unwind(std::panic::AssertUnwindSafe(move || drop(tasks)));
        IN_SIM.with(|c| c.set(false));
        let w = WORLD.with(|w| w.borrow_mut().take()).expect("no world");
        Summary {
            events: w.events,
            n_events: w.n_events,
            hash_full: w.hash_full,
            hash_sig: w.hash_sig,
            counters: w.counters,
            ticks: w.tick,
            stdin_total: w.stdin_total,
            stdout_total: w.stdout_total,
        }
    }
}
