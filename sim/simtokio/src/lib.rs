//! `simtokio` — a facade over tokio for deterministic simulation.
//!
//! Everything is the real tokio (`pub use tokio_real::*`) except:
//!   * `spawn` / `JoinHandle`: tasks are registered with the simulator's executor (`sim`),
//!     which polls exactly the task the seeded scheduler picks;
//!   * `io::{stdin, stdout, Stdin, Stdout}`: simulated pipes owned by the simulator
//!     (chunked delivery, end of input, bounded capacity, short writes, broken pipe);
//!   * `sync::mpsc` and `sync::oneshot`: thin interposers around the REAL tokio channels, that
//!     insert a seeded yield point before every operation, substitute the run's capacity knob
//!     for the literal capacity, and count back-pressure events.
//!
//! All simulator state is thread-local: one simulated run per OS thread, no sharing.
#![allow(clippy::new_without_default)]

pub use tokio_real::*;

pub mod sim;

#[doc(hidden)]
pub use tokio_real::select as __real_select;

/// `select!` whose (unbiased) starting branch is drawn from the run's seeded PRNG instead of
/// tokio's thread-local generator, which is seeded from the OS and would make a run depend on
/// what the OS thread did before. Everything else is tokio's macro.
#[macro_export]
macro_rules! select {
    ($(biased;)? else => $else:expr $(,)? ) => {{
        $else
    }};
    (biased; $p:pat = $($t:tt)* ) => {
        $crate::__real_select!(biased; $p = $($t)*)
    };
    ( $p:pat = $($t:tt)* ) => {
        $crate::__real_select!(@{ start={ $crate::sim::select_start(BRANCHES) }; () } $p = $($t)*)
    };
    () => {
        compile_error!("select! requires at least one branch.")
    };
}

pub use sim::rt::spawn;

pub mod task {
    pub use crate::sim::rt::{spawn, AbortHandle, JoinError, JoinHandle};
    pub use tokio_real::task::*;

    /// There is no blocking pool in the simulation: the closure becomes a task of its own and
    /// runs, in one piece, when the seeded scheduler picks it - one of the interleavings a
    /// blocking thread could produce.
    pub fn spawn_blocking<F, R>(f: F) -> JoinHandle<R>
    where
        F: FnOnce() -> R + 'static,
        R: 'static,
    {
        spawn(async move { f() })
    }

    /// No worker thread to hand over: the closure simply runs.
    pub fn block_in_place<F, R>(f: F) -> R
    where
        F: FnOnce() -> R,
    {
        f()
    }
}

pub mod time {
    //! Simulated clock (logical ticks, one per millisecond) instead of tokio's timer wheel.
    pub use crate::sim::time::*;
}

pub mod io {
    pub use crate::sim::stdio::{stdin, stdout, Stdin, Stdout};
    pub use tokio_real::io::*;
}

pub mod sync {
    pub use tokio_real::sync::*;

    pub mod mpsc {
        //! Interposer around `tokio::sync::mpsc` (bounded channels only are interposed).
        use crate::sim::{self, Op};
        use std::future::Future;
        use std::task::Poll;
        use tokio_real::sync::mpsc as real;

        pub use real::error;
        pub use real::{
            unbounded_channel, OwnedPermit, Permit, UnboundedReceiver, UnboundedSender,
            WeakSender, WeakUnboundedSender,
        };

        pub fn channel<T>(buffer: usize) -> (Sender<T>, Receiver<T>) {
            let (id, cap) = sim::on_channel_create(buffer);
            let (tx, rx) = real::channel(cap);
            (Sender { inner: tx, id }, Receiver { inner: rx, id })
        }

        pub struct Sender<T> {
            inner: real::Sender<T>,
            id: u32,
        }

        impl<T> Clone for Sender<T> {
            fn clone(&self) -> Self {
                Self {
                    inner: self.inner.clone(),
                    id: self.id,
                }
            }
        }

        impl<T> std::fmt::Debug for Sender<T> {
            fn fmt(&self, f: &mut std::fmt::Formatter<'_>) -> std::fmt::Result {
                write!(f, "Sender(chan {})", self.id)
            }
        }

        impl<T> Sender<T> {
            pub async fn send(&self, value: T) -> Result<(), error::SendError<T>> {
                sim::yield_point(Op::SendTry, self.id).await;
                let fut = self.inner.send(value);
                tokio_real::pin!(fut);
                let mut blocked = false;
                let id = self.id;
                let res = std::future::poll_fn(|cx| match fut.as_mut().poll(cx) {
                    Poll::Pending => {
                        if !blocked {
                            blocked = true;
                            sim::event(Op::SendBlocked, id, 0);
                        }
                        Poll::Pending
                    }
                    ready => ready,
                })
                .await;
                sim::on_sent(id, res.is_ok());
                res
            }

            pub fn try_send(&self, value: T) -> Result<(), error::TrySendError<T>> {
                let res = self.inner.try_send(value);
                match &res {
                    Ok(()) => sim::on_sent(self.id, true),
                    Err(_) => sim::event(Op::TrySendFail, self.id, 0),
                }
                res
            }

            /// Waits for capacity (with a seeded yield point like `send`); the permit itself is
            /// tokio's.
            pub async fn reserve(&self) -> Result<real::Permit<'_, T>, error::SendError<()>> {
                sim::yield_point(Op::SendTry, self.id).await;
                let fut = self.inner.reserve();
                tokio_real::pin!(fut);
                let mut blocked = false;
                let id = self.id;
                std::future::poll_fn(|cx| match fut.as_mut().poll(cx) {
                    Poll::Pending => {
                        if !blocked {
                            blocked = true;
                            sim::event(Op::SendBlocked, id, 0);
                        }
                        Poll::Pending
                    }
                    ready => ready,
                })
                .await
            }

            pub async fn reserve_owned(self) -> Result<real::OwnedPermit<T>, error::SendError<()>> {
                sim::yield_point(Op::SendTry, self.id).await;
                self.inner.reserve_owned().await
            }

            pub fn try_reserve(&self) -> Result<real::Permit<'_, T>, error::TrySendError<()>> {
                self.inner.try_reserve()
            }

            pub fn try_reserve_owned(self) -> Result<real::OwnedPermit<T>, error::TrySendError<Self>> {
                let id = self.id;
                self.inner.try_reserve_owned().map_err(|e| match e {
                    error::TrySendError::Full(inner) => error::TrySendError::Full(Sender { inner, id }),
                    error::TrySendError::Closed(inner) => error::TrySendError::Closed(Sender { inner, id }),
                })
            }

            pub async fn send_timeout(&self, value: T, d: std::time::Duration) -> Result<(), error::SendTimeoutError<T>> {
                // the simulated clock decides
                let mut slot = Some(value);
                match crate::sim::time::timeout(d, self.inner.reserve()).await {
                    Ok(Ok(permit)) => {
                        permit.send(slot.take().unwrap());
                        sim::on_sent(self.id, true);
                        Ok(())
                    }
                    Ok(Err(_)) => Err(error::SendTimeoutError::Closed(slot.take().unwrap())),
                    Err(_) => Err(error::SendTimeoutError::Timeout(slot.take().unwrap())),
                }
            }

            pub fn downgrade(&self) -> real::WeakSender<T> {
                self.inner.downgrade()
            }

            pub fn strong_count(&self) -> usize {
                self.inner.strong_count()
            }

            pub fn weak_count(&self) -> usize {
                self.inner.weak_count()
            }

            pub async fn closed(&self) {
                self.inner.closed().await
            }

            pub fn is_closed(&self) -> bool {
                self.inner.is_closed()
            }

            pub fn capacity(&self) -> usize {
                self.inner.capacity()
            }

            pub fn max_capacity(&self) -> usize {
                self.inner.max_capacity()
            }

            pub fn same_channel(&self, other: &Self) -> bool {
                self.inner.same_channel(&other.inner)
            }
        }

        pub struct Receiver<T> {
            inner: real::Receiver<T>,
            id: u32,
        }

        impl<T> std::fmt::Debug for Receiver<T> {
            fn fmt(&self, f: &mut std::fmt::Formatter<'_>) -> std::fmt::Result {
                write!(f, "Receiver(chan {})", self.id)
            }
        }

        impl<T> Receiver<T> {
            pub async fn recv(&mut self) -> Option<T> {
                sim::yield_point(Op::RecvTry, self.id).await;
                let id = self.id;
                let fut = self.inner.recv();
                tokio_real::pin!(fut);
                let mut blocked = false;
                let res = std::future::poll_fn(|cx| match fut.as_mut().poll(cx) {
                    Poll::Pending => {
                        if !blocked {
                            blocked = true;
                            sim::event(Op::RecvBlocked, id, 0);
                        }
                        Poll::Pending
                    }
                    ready => ready,
                })
                .await;
                sim::on_received(id, res.is_some());
                res
            }

            pub fn try_recv(&mut self) -> Result<T, error::TryRecvError> {
                let res = self.inner.try_recv();
                if res.is_ok() {
                    sim::on_received(self.id, true);
                }
                res
            }

            pub fn poll_recv(&mut self, cx: &mut std::task::Context<'_>) -> Poll<Option<T>> {
                let res = self.inner.poll_recv(cx);
                if let Poll::Ready(v) = &res {
                    sim::on_received(self.id, v.is_some());
                }
                res
            }

            pub async fn recv_many(&mut self, buffer: &mut Vec<T>, limit: usize) -> usize {
                sim::yield_point(Op::RecvTry, self.id).await;
                let n = self.inner.recv_many(buffer, limit).await;
                for _ in 0..n {
                    sim::on_received(self.id, true);
                }
                n
            }

            pub fn capacity(&self) -> usize {
                self.inner.capacity()
            }

            pub fn max_capacity(&self) -> usize {
                self.inner.max_capacity()
            }

            pub fn sender_strong_count(&self) -> usize {
                self.inner.sender_strong_count()
            }

            pub fn close(&mut self) {
                self.inner.close()
            }

            pub fn is_closed(&self) -> bool {
                self.inner.is_closed()
            }

            pub fn is_empty(&self) -> bool {
                self.inner.is_empty()
            }

            pub fn len(&self) -> usize {
                self.inner.len()
            }
        }
    }

    pub mod oneshot {
        //! Interposer around `tokio::sync::oneshot`.
        use crate::sim::{self, Op};
        use std::future::Future;
        use std::pin::Pin;
        use std::task::{Context, Poll};
        use tokio_real::sync::oneshot as real;

        pub use real::error;

        pub fn channel<T>() -> (Sender<T>, Receiver<T>) {
            let (tx, rx) = real::channel();
            (
                Sender { inner: tx },
                Receiver {
                    inner: rx,
                    yielded: false,
                },
            )
        }

        #[derive(Debug)]
        pub struct Sender<T> {
            inner: real::Sender<T>,
        }

        impl<T> Sender<T> {
            pub fn send(self, value: T) -> Result<(), T> {
                let res = self.inner.send(value);
                sim::event(Op::OneshotSend, 0, res.is_ok() as u32);
                res
            }

            pub fn is_closed(&self) -> bool {
                self.inner.is_closed()
            }

            pub async fn closed(&mut self) {
                self.inner.closed().await
            }
        }

        #[derive(Debug)]
        pub struct Receiver<T> {
            inner: real::Receiver<T>,
            yielded: bool,
        }

        impl<T> Receiver<T> {
            pub fn try_recv(&mut self) -> Result<T, error::TryRecvError> {
                self.inner.try_recv()
            }

            pub fn close(&mut self) {
                self.inner.close()
            }
        }

        impl<T> Future for Receiver<T> {
            type Output = Result<T, error::RecvError>;

            fn poll(mut self: Pin<&mut Self>, cx: &mut Context<'_>) -> Poll<Self::Output> {
                if !self.yielded {
                    self.yielded = true;
                    if sim::want_yield(Op::OneshotRecv, 0) {
                        cx.waker().wake_by_ref();
                        return Poll::Pending;
                    }
                }
                let res = Pin::new(&mut self.inner).poll(cx);
                if res.is_ready() {
                    sim::event(Op::OneshotRecvDone, 0, 0);
                }
                res
            }
        }
    }
}
