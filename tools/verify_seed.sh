#!/bin/bash
# verify_seed.sh <worktree> <build-cmd> <demo-cmd>
# Confirms an independently produced breakage: patch == working-tree diff, test suite passes with
# it, demonstration fails with it and passes without it. Leaves the change applied.
W="$1"; BUILD="$2"; DEMO="$3"
cd "$W" || exit 2
export CARGO_NET_OFFLINE=true
git diff -- lsp4spl spl_frontend > /tmp/vs_cur.diff
if ! diff -q /tmp/vs_cur.diff _seeded/patch.diff >/dev/null; then echo "PATCH != git diff"; diff /tmp/vs_cur.diff _seeded/patch.diff | head -20; fi
cargo test --workspace --no-fail-fast --offline > _seeded/tests-with.log 2>&1
echo "tests with change: $(grep -h '^test result' _seeded/tests-with.log | tr '\n' ' ')"
bash -c "$BUILD" > /dev/null 2>&1 || echo "BUILD FAILED (with)"
bash -c "$DEMO" > _seeded/with.log 2>&1; echo "demo with change: exit=$? (want != 0)"
git apply -R _seeded/patch.diff || { echo "cannot revert"; exit 2; }
bash -c "$BUILD" > /dev/null 2>&1 || echo "BUILD FAILED (without)"
bash -c "$DEMO" > _seeded/without.log 2>&1; echo "demo without change: exit=$? (want 0)"
git apply _seeded/patch.diff || { echo "cannot re-apply"; exit 2; }
bash -c "$BUILD" > /dev/null 2>&1
git status --short | grep -v _seeded
