#!/bin/bash
# preserving_all.sh : every kept behaviour-preserving refactoring (preserving/R*/patch.diff) is
# applied to a scratch worktree (never /repo) and all seven quick checks must stay silent.
# Exit 1 if a check raises an alarm (that would be a false alarm of the harness).
cd "$(dirname "$0")/.."
W=/tmp/wt-preserving
bad=0
for d in preserving/R*/; do
  id=$(basename $d)
  [ -d $W ] || git -C /repo worktree add -q --detach $W HEAD || exit 2
  git -C $W reset -q --hard 2>/dev/null; git -C $W checkout -q --detach $(git -C /repo rev-parse HEAD) && git -C $W checkout -q -- . && git -C $W clean -fdq -e target
  unset VERIF_NO_SID
  if ! git -C $W apply "$PWD/$d/patch.diff" 2>/dev/null; then
    git -C $W checkout -q -- . ; git -C $W reset -q --hard
    # a change that rewrites code a later fix: commit touched is applied to the tree it was made for
    # (file `base`); string request ids, which that tree does not answer (C18-K1), are then left out
    if [ -f "$d/base" ] && git -C $W checkout -q --detach "$(cat $d/base)" && git -C $W apply "$PWD/$d/patch.diff" 2>/dev/null; then
      export VERIF_NO_SID=1
    else
      echo "patch of $id does not apply"; bad=1; continue
    fi
  fi
  rm -f sim/target-scratch/.verif_repo
  out=$(tools/matrix.sh $W | sed "s/^wt-preserving/$id/")
  echo "$out"
  echo "$out" | grep -qv "exit=0 0 violations" && { echo "FALSE ALARM on $id"; bad=1; }
done
git -C /repo worktree remove --force $W 2>/dev/null
exit $bad
