#!/bin/bash
# Determinism proof: every work item is executed (a) in one process with 1 worker, (b) in a second
# process with 16 worker threads, (c) with the scenario round-tripped through its JSON form, and the
# full event-log hashes (every scheduler decision, byte segment, frame, hook event) + verdicts are diffed.
# usage: tools/determinism.sh [N per property] [seed]
N="${1:-2000}"; SEED="${2:-1}"
cd /verif && ./check build >/dev/null || exit 2
S=sim/target/release/simcheck
OUT=logs/determinism; mkdir -p $OUT
rc=0
for P in C01 C02 C07 C08 C18 C19 C20; do
  VERIF_WORKERS=1  $S hashes $P $SEED 0 $N > $OUT/$P.a 2>/dev/null &
  VERIF_WORKERS=16 $S hashes $P $SEED 0 $N > $OUT/$P.b 2>/dev/null &
  VERIF_WORKERS=5 VERIF_VIA_JSON=1 $S hashes $P $SEED 0 $N > $OUT/$P.c 2>/dev/null &
  wait
  lines=$(wc -l < $OUT/$P.a)
  if cmp -s $OUT/$P.a $OUT/$P.b && cmp -s $OUT/$P.a $OUT/$P.c; then
    echo "$P: $lines work items, 3 executions each (1 worker / 16 workers / via JSON, separate processes): event logs identical"
  else
    echo "$P: NONDETERMINISM (diff $OUT/$P.a $OUT/$P.b $OUT/$P.c)"; rc=1
  fi
done
exit $rc
