#!/bin/bash
# usage: tools/seedeval.sh <worktree-with-change-applied> [props...]
# Runs the quick checks against a scratch worktree (VERIF_REPO) and prints one line per property.
W="$1"; shift; PROPS="${@:-C01 C02 C07 C08 C18 C19 C20}"
cd /verif
for P in $PROPS; do
  out=$(VERIF_REPO="$W" VERIF_WALL_CAP=${CAP:-150} ./check $P quick 2>&1); rc=$?
  v=$(echo "$out" | grep -c "^VIOLATION")
  first=$(echo "$out" | grep -m1 "^violation found" | cut -c1-260)
  echo "$P exit=$rc violations=$v :: $first"
done
