#!/usr/bin/env python3
"""Build a one-document scenario file by hand.
usage: mkscen.py PROP out.json TEXT [--edit 'l,c,l,c|repl' ...] [--req METHOD:l:c ...] [--probe]
TEXT and repl are python string literals without quotes (\\n etc. are interpreted)."""
import sys, json, codecs
def un(s): return codecs.decode(s.encode('latin-1','backslashreplace'),'unicode_escape') if '\\' in s else s
prop,out,text=sys.argv[1],sys.argv[2],sys.argv[3]
args=sys.argv[4:]
uri="file:///w/doc0.spl"
script=[{"op":{"op":"initialize","id":1,"diag":True}},{"op":{"op":"initialized"}},{"op":{"op":"open","uri":uri,"text":un(text)}}]
i=0; rid=2
while i<len(args):
    a=args[i]
    if a=='--edit':
        i+=1; pos,repl=args[i].split('|',1)
        rng=None if pos=='' else [int(x) for x in pos.split(',')]
        script.append({"op":{"op":"change","uri":uri,"edits":[{"range":rng,"text":un(repl)}]}})
    elif a=='--req':
        i+=1; m,l,c=args[i].rsplit(':',2)
        if not m.startswith('textDocument/'): m='textDocument/'+m
        script.append({"op":{"op":"request","id":rid,"method":m,"uri":uri,"line":int(l),"character":int(c)}}); rid+=1
    elif a=='--probe':
        script.append({"op":{"op":"text_probe","id":rid,"uri":uri}}); rid+=1
    i+=1
script+= [{"op":{"op":"shutdown","id":rid}},{"op":{"op":"exit"}}]
sc={"property":prop,"label":"hand-made","seed":0,
 "knobs":{"chan_caps":[32,32],"stdout_cap":65536,"read_cap":0,"read_cap_random":False,"yield_permille":0,"short_write_permille":0,"rx_chunk":0},
 "schedule":{"policy":{"kind":"fifo"},"seed":0},"script":script,"segmentation":{"kind":"frames"},"faults":[],"close_at_end":True}
json.dump(sc,open(out,'w'),indent=1,ensure_ascii=False)
