#!/bin/bash
# reseed.sh <seeded-dir-name> [props...] : apply a kept breakage to a scratch worktree of /repo's
# HEAD (never to /repo itself) and run the quick checks against it
ID="$1"; shift
W=/tmp/wt-reseed
cd "$(dirname "$0")/.."
[ -d $W ] || git -C /repo worktree add -q --detach $W HEAD || exit 2
git -C $W reset -q --hard 2>/dev/null; git -C $W checkout -q --detach $(git -C /repo rev-parse HEAD) && git -C $W checkout -q -- . && git -C $W clean -fdq -e target || exit 2
git -C $W apply "$PWD/seeded/$ID/patch.diff" 2>/dev/null || git -C $W apply --3way "$PWD/seeded/$ID/patch.diff" >/dev/null 2>&1 || { git -C $W reset -q --hard; echo "patch of $ID does not apply"; exit 3; }
echo "$ID" > /tmp/wt-reseed.id
# a different tree behind the same path: force the rebuild
rm -f sim/target-scratch/.verif_repo
tools/matrix.sh $W "$@" | sed "s/^wt-reseed/$ID/"
git -C $W reset -q --hard
