#!/bin/bash
# replays all findings/C01-F*.json against the current /repo working tree: prints PASS/FAIL per file
cd /verif && ./check build >/dev/null || exit 2
for f in findings/C01-F*.json; do
  if sim/target/release/simcheck replay C01 $f 2>/dev/null | grep -q "REPLAY-VIOLATION"; then echo "FAIL $f"; else echo "pass $f"; fi
done
