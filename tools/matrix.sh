#!/bin/bash
# matrix.sh <worktree> [props...] : run the quick checks against a scratch worktree (never /repo)
W="$1"; shift
PROPS="${@:-C01 C02 C07 C08 C18 C19 C20}"
cd "$(dirname "$0")/.."
mkdir -p logs
for p in $PROPS; do
  VERIF_REPO="$W" ./check $p quick > logs/m_$(basename $W)_$p.log 2>&1; rc=$?
  echo "$(basename $W) $p exit=$rc $(grep -c '^VIOLATION' logs/m_$(basename $W)_$p.log) violations; $(grep -m2 -o 'clause=[a-z-]*\|\[[a-z-]*\]' logs/m_$(basename $W)_$p.log | tr '\n' ' ')"
done
