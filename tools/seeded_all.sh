#!/bin/bash
# seeded_all.sh [all] : regression over every kept breakage in seeded/: apply it to a scratch
# worktree (never /repo), run the quick check of the property it targets (or all seven with
# "all"), report caught / MISSED. Exit 1 if one is missed by the check of its own property.
cd "$(dirname "$0")/.."
missed=0
for d in seeded/S*/; do
  id=$(basename $d)
  prop=$(python3 -c "import json;print(json.load(open('$d/meta.json'))['breaks_property'])")
  if [ "${1:-}" = all ]; then props="C01 C02 C07 C08 C18 C19 C20"; else props="$prop"; fi
  out=$(tools/reseed.sh $id $props)
  echo "$out"
  if echo "$out" | grep -q "^$id $prop exit=1"; then :
  elif python3 -c "import json,sys;sys.exit(0 if 'missed' in json.load(open('$d/meta.json')) else 1)"; then
    echo "EXPECTED MISS (recorded as open in meta.json and DESIGN.md): $id by $prop"
  else echo "MISSED: $id by $prop"; missed=1; fi
done
git -C /repo worktree remove --force /tmp/wt-reseed 2>/dev/null
exit $missed
