#!/bin/bash
# sensitivity helper: ./sens.sh <PROP> <file-in-repo> <python-regex-from> <to>
# applies the mutation in a scratch worktree of /repo (never in /repo itself), runs the quick
# check against it (VERIF_REPO), and resets the worktree.
PROP="$1"; FILE="$2"; FROM="$3"; TO="$4"
W=/tmp/wt-sens
[ -d $W ] || git -C /repo worktree add -q $W HEAD || exit 2
cd $W && git checkout -q --detach $(git -C /repo rev-parse HEAD) && git checkout -q -- . || exit 2
python3 - "$FILE" "$FROM" "$TO" <<'PY'
import sys,re
p,fr,to=sys.argv[1:4]
s=open(p).read()
n=re.subn(fr,to,s,count=1,flags=re.S)
if n[1]!=1: print("MUTATION DID NOT APPLY"); sys.exit(3)
open(p,'w').write(n[0])
PY
[ $? -eq 0 ] || exit 3
git diff | grep '^[+-]' | grep -v '^+++\|^---'
( cd /verif && VERIF_REPO=$W VERIF_WALL_CAP=${CAP:-120} ./check "$PROP" quick | grep -v "^NOTE\|^WARNING" | tail -${TAIL:-6}; echo "exit=${PIPESTATUS[0]}" )
git checkout -q -- .
