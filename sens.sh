#!/bin/bash
# sensitivity helper: ./sens.sh <PROP> <file-in-repo> <python-regex-from> <to>   (applies, runs quick check, reverts)
PROP="$1"; FILE="$2"; FROM="$3"; TO="$4"
cd /repo || exit 2
[ -z "$(git status --porcelain)" ] || { echo "repo dirty"; exit 2; }
python3 - "$FILE" "$FROM" "$TO" <<'PY'
import sys,re
p,fr,to=sys.argv[1:4]
s=open(p).read()
n=re.subn(fr,to,s,count=1,flags=re.S)
if n[1]!=1: print("MUTATION DID NOT APPLY"); sys.exit(3)
open(p,'w').write(n[0])
PY
[ $? -eq 0 ] || exit 3
git diff | grep '^[+-]' | grep -v '^+++\|^---'
( cd /verif && VERIF_WALL_CAP=${CAP:-120} ./check "$PROP" quick | grep -v "^NOTE\|^WARNING" | tail -${TAIL:-6}; echo "exit=${PIPESTATUS[0]}" )
git checkout -- . 
